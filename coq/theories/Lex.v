From Coq Require Import List Ascii String NArith Bool Arith Lia.
Import ListNotations.
Open Scope char_scope.

Definition bytes := list ascii.
Definition eqc (a b : ascii) : bool := Ascii.eqb a b.
Definition code (c : ascii) : N := N_of_ascii c.
Definition in_range (lo hi : N) (c : ascii) : bool := (N.leb lo (code c) && N.leb (code c) hi)%bool.
Definition is_digit c := in_range 48 57 c.
Definition is_lower c := in_range 97 122 c.
Definition is_upper c := in_range 65 90 c.
Definition is_ident_start c := is_lower c || is_upper c || eqc c "_".
Definition is_ident_char c := is_ident_start c || is_digit c.
Definition is_hex c := is_digit c || in_range 97 102 c || in_range 65 70 c.
Definition LF : ascii := "010".
Definition CR : ascii := "013".
Definition TAB : ascii := "009".
Definition SP : ascii := " ".
(* Rust's char::is_ascii_whitespace: space, tab, LF, FF, CR *)
Definition is_ascii_ws c := eqc c SP || eqc c TAB || eqc c LF || eqc c "012" || eqc c CR.

Record ver := { v52 : bool; v53 : bool; v54 : bool; vluau : bool; vjit : bool }.

Inductive qkind := QSingle | QDouble | QBrackets.
Inductive tok :=
| TIdent (s : bytes) | TSym (s : bytes) | TNum (s : bytes)
| TStr (q : qkind) (depth : nat) (body : bytes)
| TWs (s : bytes) | TLineCom (s : bytes) | TBlockCom (depth : nat) (body : bytes) | TShebang (s : bytes).

Definition str (s : string) : bytes := list_ascii_of_string s.

Fixpoint take_while (p : ascii -> bool) (s : bytes) : bytes * bytes :=
  match s with
  | c :: r => if p c then let '(a, b) := take_while p r in (c :: a, b) else ([], s)
  | [] => ([], [])
  end.

Fixpoint beqb (a b : bytes) : bool :=
  match a, b with [], [] => true | x :: a', y :: b' => eqc x y && beqb a' b' | _, _ => false end.
Definition mem (x : bytes) (l : list bytes) : bool := existsb (beqb x) l.
Definition keywords : list bytes := map str
  ["and";"break";"do";"else";"elseif";"end";"false";"for";"function";"if";"in";"local";"nil";"not";"or";
   "repeat";"return";"then";"true";"until";"while"]%string.
Definition is_keyword (v : ver) (s : bytes) : bool :=
  mem s keywords || (beqb s (str "goto") && (v52 v || vjit v)).

(* ---- whitespace ---- *)
Fixpoint ws_more (s : bytes) : bytes * bytes :=
  match s with
  | c :: r =>
    if eqc c SP || eqc c TAB then let '(a, b) := ws_more r in (c :: a, b)
    else if eqc c LF then ([c], r)
    else if eqc c CR then match r with d :: r' => if eqc d LF then ([c; d], r') else ([], s) | [] => ([], s) end
    else ([], s)
  | [] => ([], [])
  end.

(* ---- numbers ---- : None = InvalidNumber *)
Fixpoint digits_us (v : ver) (s : bytes) : bytes * bytes :=
  match s with
  | c :: r => if is_digit c || (vluau v && eqc c "_") then let '(a, b) := digits_us v r in (c :: a, b) else ([], s)
  | [] => ([], [])
  end.
Definition is_e c := eqc c "e" || eqc c "E".
Definition is_p c := eqc c "p" || eqc c "P".
Definition is_u c := eqc c "u" || eqc c "U".
Definition is_l c := eqc c "l" || eqc c "L".
Definition is_i c := eqc c "i" || eqc c "I".
Definition is_jit_suffix c := is_u c || is_l c || is_i c.

(* s starts at the exponent marker *)
Definition exponent (v : ver) (acc : bytes) (s : bytes) : option (bytes * bytes) :=
  match s with
  | e :: r =>
    let '(sign, r1) := match r with c :: r' => if eqc c "+" || eqc c "-" then ([c], r') else ([], r) | [] => ([], r) end in
    match r1 with
    | d :: _ => if is_digit d then let '(ds, r2) := digits_us v r1 in Some (acc ++ e :: sign ++ ds, r2) else None
    | [] => None
    end
  | [] => None
  end.

Fixpoint jit_suffix (fuel : nat) (acc : bytes) (s : bytes) : option (bytes * bytes) :=
  match fuel with O => None | S fuel =>
  match s with
  | c :: r =>
    if is_u c then
      match r with d :: _ => if is_l d then jit_suffix fuel (acc ++ [c]) r else None | [] => None end
    else if is_l c then
      match r with d :: r' => if is_l d then Some (acc ++ [c; d], r') else None | [] => None end
    else if is_i c then Some (acc ++ [c], r)
    else None
  | [] => Some (acc, [])
  end end.

Fixpoint number_body (v : ver) (fuel : nat) (hit : bool) (acc : bytes) (s : bytes) : option (bytes * bytes) :=
  match fuel with O => None | S fuel =>
  match s with
  | c :: r =>
    if is_digit c || (vluau v && eqc c "_") then number_body v fuel hit (acc ++ [c]) r
    else if eqc c "." then (if hit then None else number_body v fuel true (acc ++ [c]) r)
    else if is_e c then exponent v acc s
    else if vjit v && is_jit_suffix c then jit_suffix 4 acc s
    else Some (acc, s)
  | [] => Some (acc, [])
  end end.

Fixpoint hex_body (v : ver) (fuel : nat) (hit : bool) (acc : bytes) (s : bytes) : option (bytes * bytes) :=
  match fuel with O => None | S fuel =>
  match s with
  | c :: r =>
    if is_hex c then hex_body v fuel hit (acc ++ [c]) r
    else if vluau v && eqc c "_" then hex_body v fuel hit (acc ++ [c]) r
    else if v52 v && eqc c "." then (if hit then None else hex_body v fuel true (acc ++ [c]) r)
    else if v52 v && is_p c then (if Nat.eqb (List.length acc) 2 then None else exponent v acc s)
    else if vjit v && is_jit_suffix c then jit_suffix 4 acc s
    else if Nat.eqb (List.length acc) 2 then None else Some (acc, s)
  | [] => if Nat.eqb (List.length acc) 2 then None else Some (acc, [])
  end end.

Fixpoint bin_body (v : ver) (fuel : nat) (acc : bytes) (s : bytes) : option (bytes * bytes) :=
  match fuel with O => None | S fuel =>
  match s with
  | c :: r =>
    if eqc c "0" || eqc c "1" || eqc c "_" then bin_body v fuel (acc ++ [c]) r
    else if vjit v && is_jit_suffix c then jit_suffix 4 acc s
    else if Nat.eqb (List.length acc) 2 then None else Some (acc, s)
  | [] => if Nat.eqb (List.length acc) 2 then None else Some (acc, [])
  end end.

(* ---- quoted strings ---- : None = unclosed *)
Fixpoint qstring (v : ver) (fuel : nat) (q : ascii) (esc zesc : bool) (acc : bytes) (s : bytes) : option (bytes * bytes) :=
  match fuel with O => None | S fuel =>
  match s with
  | [] => None
  | c :: r =>
    if esc then
      if eqc c "z" && (v52 v || vluau v || vjit v) then qstring v fuel q false true (acc ++ [c]) r
      else qstring v fuel q false (if v52 v || vluau v then true else zesc) (acc ++ [c]) r
    else if eqc c "\" then qstring v fuel q true zesc (acc ++ [c]) r
    else if eqc c LF || eqc c CR then (if zesc then qstring v fuel q false false (acc ++ [c]) r else None)
    else if eqc c q then Some (acc, r)
    else qstring v fuel q false zesc (acc ++ [c]) r
  end end.

(* ---- long brackets ---- *)
Fixpoint count_eq (s : bytes) : nat * bytes :=
  match s with c :: r => if eqc c "=" then let '(n, b) := count_eq r in (S n, b) else (0, s) | [] => (0, []) end.
Fixpoint eat_eq (n : nat) (s : bytes) : option bytes :=   (* exactly as the Rust loop: consume up to n '=' *)
  match n with O => Some s | S n' => match s with c :: r => if eqc c "=" then eat_eq n' r else None | [] => None end end.
Fixpoint eqs (n : nat) : bytes := match n with O => [] | S n => "=" :: eqs n end.
Fixpoint count_eq_upto (n : nat) (s : bytes) : nat * bytes :=
  match n with O => (0, s) | S n' => match s with c :: r => if eqc c "=" then let '(k, b) := count_eq_upto n' r in (S k, b) else (0, s) | [] => (0, s) end end.

(* s is just after the opening "[==[" ; returns body and rest, None = unclosed *)
Fixpoint long_body (fuel : nat) (blocks : nat) (acc : bytes) (s : bytes) : option (bytes * bytes) :=
  match fuel with O => None | S fuel =>
  match s with
  | [] => None
  | c :: r =>
    if eqc c "]" then
      let '(k, r1) := count_eq_upto blocks r in
      if Nat.eqb k blocks then
        match r1 with
        | d :: r2 => if eqc d "]" then Some (acc, r2) else long_body fuel blocks (acc ++ "]" :: eqs k) r1
        | [] => long_body fuel blocks (acc ++ "]" :: eqs k) r1
        end
      else long_body fuel blocks (acc ++ "]" :: eqs k) r1
    else long_body fuel blocks (acc ++ [c]) r
  end end.

Inductive mlb := MOk (blocks : nat) (body rest : bytes) | MUnclosed | MNot (blocks : nat) (rest : bytes).
(* s is just after the first '[' *)
Definition multi_line_body (s : bytes) : mlb :=
  let '(blocks, r) := count_eq s in
  match r with
  | c :: r' => if eqc c "[" then
                 match long_body (S (List.length r')) blocks [] r' with Some (b, rest) => MOk blocks b rest | None => MUnclosed end
               else MNot blocks r
  | [] => MNot blocks r
  end.

Definition sym (t : string) (r : bytes) : option (tok * bytes) := Some (TSym (str t), r).
Definition starts (c : ascii) (s : bytes) : option bytes := match s with d :: r => if eqc c d then Some r else None | [] => None end.

(* one token; None = tokenizer error (fatal or recovered) or construct not modelled *)
Definition lex_one (v : ver) (s : bytes) : option (tok * bytes) :=
  match s with
  | [] => None
  | c :: r =>
    if is_ident_start c then
      let '(a, b) := take_while is_ident_char r in
      let id := c :: a in Some (if is_keyword v id then TSym id else TIdent id, b)
    else if eqc c SP || eqc c TAB || eqc c CR then let '(a, b) := ws_more r in Some (TWs (c :: a), b)
    else if eqc c LF then Some (TWs [c], r)
    else if eqc c "0" then
      match r with
      | x :: r' =>
        if eqc x "x" || eqc x "X" then option_map (fun '(n, b) => (TNum n, b)) (hex_body v (S (List.length r')) false [c; x] r')
        else if (vluau v || vjit v) && (eqc x "b" || eqc x "B") then option_map (fun '(n, b) => (TNum n, b)) (bin_body v (S (List.length r')) [c; x] r')
        else option_map (fun '(n, b) => (TNum n, b)) (number_body v (S (List.length r)) false [c] r)
      | [] => Some (TNum [c], [])
      end
    else if is_digit c then option_map (fun '(n, b) => (TNum n, b)) (number_body v (S (List.length r)) false [c] r)
    else if eqc c """" then option_map (fun '(b, rest) => (TStr QDouble 0 b, rest)) (qstring v (S (List.length r)) c false false [] r)
    else if eqc c "'" then option_map (fun '(b, rest) => (TStr QSingle 0 b, rest)) (qstring v (S (List.length r)) c false false [] r)
    else if eqc c "`" then None
    else if eqc c "=" then match starts "=" r with Some r' => sym "==" r' | None => sym "=" r end
    else if eqc c "~" then match starts "=" r with Some r' => sym "~=" r' | None => if v53 v then sym "~" r else None end
    else if eqc c "(" then sym "(" r else if eqc c ")" then sym ")" r
    else if eqc c "[" then
      match r with
      | x :: _ => if eqc x "[" || eqc x "=" then
                    match multi_line_body r with
                    | MOk blocks body rest => Some (TStr QBrackets blocks body, rest)
                    | MUnclosed => None
                    | MNot _ _ => sym "[" r
                    end
                  else sym "[" r
      | [] => sym "[" r
      end
    else if eqc c "]" then sym "]" r
    else if eqc c ":" then
      (if v52 v || vluau v || vjit v then match starts ":" r with Some r' => sym "::" r' | None => sym ":" r end else sym ":" r)
    else if eqc c "," then sym "," r
    else if eqc c "+" then (if vluau v then match starts "=" r with Some r' => sym "+=" r' | None => sym "+" r end else sym "+" r)
    else if eqc c "*" then (if vluau v then match starts "=" r with Some r' => sym "*=" r' | None => sym "*" r end else sym "*" r)
    else if eqc c "/" then
      (if v53 v || vluau v then
         match starts "/" r with
         | Some r' => if vluau v then match starts "=" r' with Some r'' => sym "//=" r'' | None => sym "//" r' end else sym "//" r'
         | None => if vluau v then match starts "=" r with Some r' => sym "/=" r' | None => sym "/" r end else sym "/" r
         end
       else sym "/" r)
    else if eqc c "%" then (if vluau v then match starts "=" r with Some r' => sym "%=" r' | None => sym "%" r end else sym "%" r)
    else if eqc c "^" then (if vluau v then match starts "=" r with Some r' => sym "^=" r' | None => sym "^" r end else sym "^" r)
    else if eqc c "#" then sym "#" r
    else if eqc c "<" then
      match (if v53 v then starts "<" r else None) with
      | Some r' => sym "<<" r'
      | None => match starts "=" r with Some r' => sym "<=" r' | None => sym "<" r end
      end
    else if eqc c ">" then
      match (if v53 v then starts ">" r else None) with
      | Some r' => sym ">>" r'
      | None => match starts "=" r with Some r' => sym ">=" r' | None => sym ">" r end
      end
    else if eqc c "{" then sym "{" r else if eqc c "}" then sym "}" r
    else if eqc c "." then
      match starts "." r with
      | Some r' => match starts "." r' with
                   | Some r'' => sym "..." r''
                   | None => if vluau v then match starts "=" r' with Some r'' => sym "..=" r'' | None => sym ".." r' end else sym ".." r'
                   end
      | None => match r with
                | d :: _ => if is_digit d then option_map (fun '(n, b) => (TNum n, b)) (number_body v (S (List.length r)) false [c] r) else sym "." r
                | [] => sym "." r
                end
      end
    else if eqc c "-" then
      match (if vluau v then match starts "=" r with Some r' => Some (str "-=", r') | None => match starts ">" r with Some r' => Some (str "->", r') | None => None end end else None) with
      | Some (t, r') => Some (TSym t, r')
      | None =>
        match starts "-" r with
        | Some r1 =>
          (* read_comment *)
          let line (pre : bytes) (s' : bytes) := let '(a, b) := take_while (fun x => negb (eqc x LF)) s' in Some (TLineCom (pre ++ a), b) in
          match starts "[" r1 with
          | Some r2 => match multi_line_body r2 with
                       | MOk blocks body rest => Some (TBlockCom blocks body, rest)
                       | MUnclosed => None
                       | MNot blocks rest => line ("[" :: eqs blocks) rest
                       end
          | None => line [] r1
          end
        | None => sym "-" r
        end
      end
    else if eqc c ";" then sym ";" r
    else if eqc c "&" then (if v53 v || vluau v then sym "&" r else None)
    else if eqc c "|" then (if v53 v || vluau v then sym "|" r else None)
    else if eqc c "?" then (if vluau v then sym "?" r else None)
    else None
  end.

Fixpoint lex_loop (v : ver) (fuel : nat) (s : bytes) : option (list tok) :=
  match fuel with O => None | S fuel =>
  match s with
  | [] => Some []
  | _ => match lex_one v s with Some (t, r) => option_map (cons t) (lex_loop v fuel r) | None => None end
  end end.

Definition lex (v : ver) (s : bytes) : option (list tok) :=
  match s with
  | a :: b :: r => if eqc a "#" && eqc b "!" then
                     let '(l, rest) := take_while (fun x => negb (eqc x LF)) r in
                     option_map (cons (TShebang (a :: b :: l))) (lex_loop v (S (List.length rest)) rest)
                   else lex_loop v (S (List.length s)) s
  | _ => lex_loop v (S (List.length s)) s
  end.

Definition vall := {| v52 := true; v53 := true; v54 := true; vluau := true; vjit := true |}.
Definition v51 := {| v52 := false; v53 := false; v54 := false; vluau := false; vjit := false |}.

