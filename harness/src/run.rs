//! The generic formatter run: programs (generated, or the files of a directory) x configurations (x ranges),
//! through format_code, with re-parse, second pass and (optionally) full_moon's token dumps.  One CASE line each.
use crate::common::*;
use crate::gen::*;

pub const WIDTHS: [&str; 6] = ["1", "20", "40", "80", "120", "max"];
pub fn random_config(rng: &mut Rng, syn: &str, allow_sort: bool) -> Vec<String> {
    let mut w = vec![format!("syntax={}", syn)];
    w.push(format!("column_width={}", rng.pick(&WIDTHS)));
    w.push(format!("indent_type={}", rng.pick(&["Tabs", "Spaces"])));
    w.push(format!("indent_width={}", rng.pick(&["1", "2", "4", "8"])));
    w.push(format!("line_endings={}", rng.pick(&["Unix", "Windows"])));
    w.push(format!("quote_style={}", rng.pick(&QUOTE_STYLES)));
    w.push(format!("call_parentheses={}", rng.pick(&CALL_PARENS)));
    w.push(format!("collapse_simple_statement={}", rng.pick(&COLLAPSE)));
    w.push(format!("space_after_function_names={}", rng.pick(&SPACE_AFTER)));
    if allow_sort && rng.chance(1, 4) { w.push("sort_requires=true".into()); }
    w
}

pub struct Opts { pub trace: bool, pub nf: bool, pub tokens: bool, pub idem: bool, pub ranges: bool, pub sort: bool, pub cfgs: usize, pub wide_only: bool, pub calls: bool }

pub fn run_case(out: &mut dyn std::io::Write, id: &str, syn: &str, words: &[String], range: Option<(usize, usize)>, src: &str, o: &Opts) {
    let wrefs: Vec<&str> = words.iter().map(|s| s.as_str()).collect();
    let cfg = config(&wrefs);
    let v = syntax(syn);
    let r = range.map(|(a, b)| stylua_lib::Range::from_values(Some(a), Some(b)));
    let rs = range.map_or("-".to_string(), |(a, b)| format!("{}:{}", a, b));
    let head = format!("CASE {} {} {} {} {}", id, syn, words.join(";"), rs, hex(src.as_bytes()));
    if o.trace { stylua_lib::verif_hooks::start_trace(); }
    let result = format_guarded(src, cfg, r);
    let trace = if o.trace { stylua_lib::verif_hooks::take_trace() } else { vec![] };
    match result {
        Outcome::Ok(t) => {
            let reparse = parses(&t, v);
            let idem = if !o.idem { "skipped".to_string() } else {
                match format_guarded(&t, cfg, r) {
                    Outcome::Ok(t2) => if t2 == t { "same".to_string() } else { format!("diff:{}", hex(t2.as_bytes())) },
                    Outcome::ParseError => "parseerror".to_string(),
                    Outcome::OtherError(_) => "error".to_string(),
                    Outcome::Panic(_) => "panic".to_string(),
                }
            };
            writeln!(out, "{} ok {} {} {}", head, hex(t.as_bytes()), if reparse { 1 } else { 0 }, idem).unwrap();
            if o.trace {
                // identical calls (the formatter tries several layouts) are reported once
                let mut seen = std::collections::HashSet::new();
                for rec in &trace { if seen.insert(rec.clone()) { writeln!(out, "TR {} {}", id, rec).unwrap(); } }
            }
            if o.nf {
                match (crate::nf::nf_of_source(src, v), crate::nf::nf_of_source(&t, v)) {
                    (Some(a), Some(b)) => { writeln!(out, "NF {} src {}", id, a.replace(' ', ",")).unwrap(); writeln!(out, "NF {} out {}", id, b.replace(' ', ",")).unwrap(); }
                    _ => writeln!(out, "NF {} unavailable", id).unwrap(),
                }
            }
            if o.calls {
                for (tag, text) in [("src", src), ("out", t.as_str())] {
                    match full_moon::parse_fallible(text, v.into()).into_result() {
                        Ok(ast) => writeln!(out, "CL {} {} {}", id, tag, crate::calls::observe(&ast)).unwrap(),
                        Err(_) => writeln!(out, "CL {} {} ERROR", id, tag).unwrap(),
                    }
                }
            }
            if o.tokens {
                for (tag, text) in [("src", src), ("out", t.as_str())] {
                    match lex(text, v) {
                        Some(ts) => {
                            let mut line = format!("FM {} {} ", id, tag);
                            for tk in &ts { if let Some(l) = token_line(tk) { line.push('|'); line.push_str(&l.replace(' ', ",")); } }
                            writeln!(out, "{}", line).unwrap();
                        }
                        None => writeln!(out, "FM {} {} ERROR", id, tag).unwrap(),
                    }
                }
            }
        }
        Outcome::ParseError => writeln!(out, "{} parseerror", head).unwrap(),
        Outcome::OtherError(e) => writeln!(out, "{} error {}", head, hex(e.as_bytes())).unwrap(),
        Outcome::Panic(e) => writeln!(out, "{} panic {}", head, hex(e.as_bytes())).unwrap(),
    }
}

pub fn main(args: &[String]) {
    silence_panics();
    let (mut seed, mut n, mut shard, mut shards) = (0u64, 100usize, 0usize, 1usize);
    let mut mode = "plain".to_string();
    let mut o = Opts { trace: false, nf: false, tokens: false, idem: false, ranges: false, sort: false, cfgs: 2, wide_only: false, calls: false };
    let mut dirs: Vec<String> = vec![];
    let mut skip_directives = false;
    let mut one: Option<(String, String, String, String)> = None;
    let mut i = 0;
    while i < args.len() {
        match args[i].as_str() {
            "--seed" => { seed = args[i + 1].parse().unwrap(); i += 1 }
            "--n" => { n = args[i + 1].parse().unwrap(); i += 1 }
            "--mode" => { mode = args[i + 1].clone(); i += 1 }
            "--shard" => { let (a, b) = args[i + 1].split_once('/').unwrap(); shard = a.parse().unwrap(); shards = b.parse().unwrap(); i += 1 }
            "--cfgs" => { o.cfgs = args[i + 1].parse().unwrap(); i += 1 }
            "--tokens" => o.tokens = true,
            "--nf" => o.nf = true,
            "--trace" => o.trace = true,
            "--idem" => o.idem = true,
            "--calls" => o.calls = true,
            "--ranges" => o.ranges = true,
            "--sort" => o.sort = true,
            "--wide-only" => o.wide_only = true,
            "--skip-directives" => skip_directives = true,
            "--dir" => { dirs.push(args[i + 1].clone()); i += 1 }
            "--one" => { one = Some((args[i + 1].clone(), args[i + 2].clone(), args[i + 3].clone(), args[i + 4].clone())); i += 4 }
            _ => panic!("run: unknown argument {}", args[i]),
        }
        i += 1;
    }
    let stdout = std::io::stdout();
    let mut out = std::io::BufWriter::new(stdout.lock());
    use std::io::Write;
    if let Some((syn, words, range, srchex)) = one {
        let w: Vec<String> = words.split(';').map(|s| s.to_string()).collect();
        let r = if range == "-" { None } else { let (a, b) = range.split_once(':').unwrap(); Some((a.parse().unwrap(), b.parse().unwrap())) };
        run_case(&mut out, "one", &syn, &w, r, &String::from_utf8_lossy(&unhex(&srchex)), &o);
        return;
    }
    let mut cases = 0usize; let mut unparsed = 0usize;
    let mut handle = |out: &mut std::io::BufWriter<std::io::StdoutLock>, id: String, syn: &str, src: &str, rng: &mut Rng| {
        if !parses(src, syntax(syn)) { unparsed += 1; return; }
        for c in 0..o.cfgs {
            let words = if c == 0 { vec![format!("syntax={}", syn)] }
                        else if o.wide_only { let mut w = random_config(rng, syn, o.sort); w[1] = "column_width=max".into(); w }
                        else { random_config(rng, syn, o.sort) };
            let range = if o.ranges && c > 0 && !src.is_empty() { let a = rng.below(src.len()); let b = a + rng.below(src.len() - a + 1); Some((a, b)) } else { None };
            run_case(out, &format!("{}.{}", id, c), syn, &words, range, src, &o);
            cases += 1;
        }
    };
    let mut k = 0usize;
    for d in &dirs {
        let mut files: Vec<_> = std::fs::read_dir(d).unwrap().filter_map(|e| e.ok()).map(|e| e.path()).filter(|p| p.is_file()).collect();
        files.sort();
        let syn = if d.contains("luau") { "Luau" } else if d.contains("lua54") { "Lua54" } else if d.contains("lua53") { "Lua53" } else if d.contains("lua52") { "Lua52" } else { "Lua51" };
        for p in files {
            k += 1;
            if k % shards != shard { continue; }
            if let Ok(src) = std::fs::read_to_string(&p) {
                if skip_directives && src.contains("stylua: ignore") { continue; }
                let mut rng = Rng(seed ^ (k as u64).wrapping_mul(0x2545F4914F6CDD1D));
                handle(&mut out, format!("f:{}/{}", d.rsplit('/').next().unwrap(), p.file_name().unwrap().to_string_lossy()), syn, &src, &mut rng);
            }
        }
    }
    for g in 0..n {
        if g % shards != shard { continue; }
        let (src, knobs) = nth_program(seed, g, &mode);
        let mut rng = Rng(seed ^ (g as u64).wrapping_mul(0x2545F4914F6CDD1D) ^ 0xABCD);
        handle(&mut out, format!("g{}", g), knobs.syn, &src, &mut rng);
    }
    writeln!(out, "STATS cases={} unparsed_inputs={}", cases, unparsed).unwrap();
}
