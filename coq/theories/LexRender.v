From Coq Require Import List Ascii String NArith Bool Arith Lia.
Import ListNotations.
From SV Require Import Lex.
Open Scope char_scope.

(* ================= printing tokens ================= *)
Definition show (t : tok) : bytes :=
  match t with
  | TIdent s | TSym s | TNum s | TWs s => s
  | TStr QSingle _ b => "'" :: b ++ ["'"]
  | TStr QDouble _ b => """" :: b ++ [""""]
  | TStr QBrackets d b => "[" :: eqs d ++ "[" :: b ++ "]" :: eqs d ++ ["]"]
  | TLineCom s => "-" :: "-" :: s
  | TBlockCom d b => "-" :: "-" :: "[" :: eqs d ++ "[" :: b ++ "]" :: eqs d ++ ["]"]
  | TShebang s => s
  end.
Definition render (ts : list tok) : bytes := List.concat (map show ts).

(* a token lexes back to itself in front of [rest] *)
Definition single (v : ver) (t : tok) (rest : bytes) : Prop := lex_one v (show t ++ rest) = Some (t, rest).

(* ================= the list-level theorem ================= *)
Fixpoint all_single (v : ver) (ts : list tok) : Prop :=
  match ts with [] => True | t :: r => show t <> [] /\ single v t (render r) /\ all_single v r end.

Lemma lex_loop_render v : forall ts fuel, all_single v ts -> List.length (render ts) < fuel ->
  lex_loop v fuel (render ts) = Some ts.
Proof.
  induction ts as [|t r IH]; intros fuel H Hf.
  - destruct fuel; [cbn in Hf; lia|]. reflexivity.
  - destruct H as (Hne & Hs & Hr). destruct fuel as [|fuel]; [lia|].
    assert (E : render (t :: r) = show t ++ render r) by reflexivity.
    rewrite E in *. cbn [lex_loop].
    destruct (show t ++ render r) as [|c s] eqn:E2.
    + destruct (show t); [congruence|discriminate].
    + rewrite <- E2. unfold single in Hs. rewrite Hs. rewrite IH; auto.
      assert (L : List.length (show t ++ render r) = List.length (show t) + List.length (render r)) by apply app_length.
      rewrite E2 in L. destruct (show t) eqn:Es; [congruence|]. cbn in L, Hf. lia.
Qed.

(* ================= scanning helpers ================= *)
Lemma take_while_app p s rest :
  forallb p s = true -> (match rest with c :: _ => p c = false | [] => True end) ->
  take_while p (s ++ rest) = (s, rest).
Proof.
  induction s as [|c s IH]; cbn; intros Hs Hr.
  - destruct rest as [|c r]; [reflexivity|]. cbn. rewrite Hr. reflexivity.
  - apply andb_true_iff in Hs. destruct Hs as [Hc Hs]. rewrite Hc, IH; auto.
Qed.

(* ================= identifiers and keywords ================= *)
Definition wf_ident (s : bytes) : Prop :=
  match s with c :: a => is_ident_start c = true /\ forallb is_ident_char a = true | [] => False end.
Definition follow_ident (rest : bytes) : Prop := match rest with c :: _ => is_ident_char c = false | [] => True end.

Theorem single_ident v s rest : wf_ident s -> is_keyword v s = false -> follow_ident rest -> single v (TIdent s) rest.
Proof.
  destruct s as [|c a]; [intros []|]. intros [Hc Ha] Hk Hf. unfold single. cbn [show app]. unfold lex_one. rewrite Hc.
  rewrite (take_while_app is_ident_char a rest Ha Hf). rewrite Hk. reflexivity.
Qed.
Theorem single_keyword v s rest : wf_ident s -> is_keyword v s = true -> follow_ident rest -> single v (TSym s) rest.
Proof.
  destruct s as [|c a]; [intros []|]. intros [Hc Ha] Hk Hf. unfold single. cbn [show app]. unfold lex_one. rewrite Hc.
  rewrite (take_while_app is_ident_char a rest Ha Hf). rewrite Hk. reflexivity.
Qed.

(* ================= line comments ================= *)
Definition no_lf (s : bytes) : bool := forallb (fun x => negb (eqc x LF)) s.
Definition follow_comment (rest : bytes) : Prop := match rest with c :: _ => eqc c LF = true | [] => True end.
Theorem single_line_comment v s rest :
  no_lf s = true -> (match s with c :: _ => eqc c "[" = false | [] => True end) -> follow_comment rest ->
  single v (TLineCom s) rest.
Proof.
  intros Hs Hb Hr. unfold single. cbn [show app]. unfold lex_one. cbn -[take_while multi_line_body vluau].
  assert (TW : take_while (fun x => negb (eqc x LF)) (s ++ rest) = (s, rest)).
  { apply take_while_app; [exact Hs|]. destruct rest; auto. cbn in Hr. rewrite Hr. reflexivity. }
  assert (ST : starts "[" (s ++ rest) = None).
  { destruct s as [|x s']; cbn [app].
    - destruct rest as [|c r]; [reflexivity|]. cbn in Hr. unfold starts.
      destruct (eqc "[" c) eqn:E; [|reflexivity]. apply Ascii.eqb_eq in E. subst. discriminate.
    - unfold starts. destruct (eqc "[" x) eqn:E; [|reflexivity]. apply Ascii.eqb_eq in E. subst. discriminate. }
  rewrite ST, TW. destruct (vluau v); reflexivity.
Qed.

(* ================= whitespace (the three shapes the formatter emits) ================= *)
Definition blank (c : ascii) : bool := eqc c SP || eqc c TAB.
Definition follow_blank (rest : bytes) : Prop :=
  match rest with c :: _ => blank c = false /\ eqc c LF = false /\ eqc c CR = false | [] => True end.

Lemma ws_more_blanks s rest : forallb blank s = true -> follow_blank rest -> ws_more (s ++ rest) = (s, rest).
Proof.
  induction s as [|c s IH]; cbn [app forallb]; intros Hs Hf.
  - destruct rest as [|c r]; [reflexivity|]. destruct Hf as (A & B & C). cbn [ws_more].
    unfold blank in A. rewrite A, B, C. reflexivity.
  - apply andb_true_iff in Hs. destruct Hs as [Hc Hs]. cbn [ws_more]. unfold blank in Hc. rewrite Hc, IH; auto.
Qed.
Lemma ws_more_blanks_lf s rest : forallb blank s = true -> ws_more (s ++ LF :: rest) = (s ++ [LF], rest).
Proof.
  induction s as [|c s IH]; cbn [app forallb]; intros Hs.
  - reflexivity.
  - apply andb_true_iff in Hs. destruct Hs as [Hc Hs]. cbn [ws_more]. unfold blank in Hc. rewrite Hc, IH; auto.
Qed.

(* spaces / tabs not followed by more whitespace *)
Theorem single_blanks v c s rest : blank c = true -> forallb blank s = true -> follow_blank rest ->
  single v (TWs (c :: s)) rest.
Proof.
  intros Hc Hs Hf. unfold single. cbn [show app]. unfold lex_one.
  assert (I : is_ident_start c = false).
  { unfold blank in Hc. apply orb_true_iff in Hc. destruct Hc as [E|E]; apply Ascii.eqb_eq in E; subst; reflexivity. }
  rewrite I. assert (W : (eqc c SP || eqc c TAB || eqc c CR) = true) by (unfold blank in Hc; rewrite Hc; reflexivity).
  rewrite W. rewrite ws_more_blanks; auto.
Qed.
(* a newline, possibly after blanks *)
Theorem single_newline v rest : single v (TWs [LF]) rest.
Proof. reflexivity. Qed.
Theorem single_blanks_newline v c s rest : blank c = true -> forallb blank s = true ->
  single v (TWs (c :: s ++ [LF])) rest.
Proof.
  intros Hc Hs. unfold single. cbn [show app]. unfold lex_one.
  assert (I : is_ident_start c = false).
  { unfold blank in Hc. apply orb_true_iff in Hc. destruct Hc as [E|E]; apply Ascii.eqb_eq in E; subst; reflexivity. }
  rewrite I. assert (W : (eqc c SP || eqc c TAB || eqc c CR) = true) by (unfold blank in Hc; rewrite Hc; reflexivity).
  rewrite W. rewrite <- app_assoc. cbn [app]. rewrite ws_more_blanks_lf; auto.
Qed.
Theorem single_crlf v rest : single v (TWs [CR; LF]) rest.
Proof. reflexivity. Qed.

(* ================= quoted strings ================= *)
(* the scanner state after reading [b]; None if it would already have stopped *)
Fixpoint qscan (v : ver) (q : ascii) (esc zesc : bool) (b : bytes) : option (bool * bool) :=
  match b with
  | [] => Some (esc, zesc)
  | c :: r =>
    if esc then
      if eqc c "z" && (v52 v || vluau v || vjit v) then qscan v q false true r
      else qscan v q false (if v52 v || vluau v then true else zesc) r
    else if eqc c "\" then qscan v q true zesc r
    else if eqc c LF || eqc c CR then (if zesc then qscan v q false false r else None)
    else if eqc c q then None
    else qscan v q false zesc r
  end.

Definition is_q (q : ascii) : Prop := q = "'" \/ q = """".
Lemma q_facts q : is_q q -> eqc q "\" = false /\ eqc q LF = false /\ eqc q CR = false /\ eqc q q = true.
Proof. intros [H|H]; subst; repeat split; reflexivity. Qed.

Lemma qstring_app v q : is_q q -> forall b fuel esc zesc acc rest z',
  qscan v q esc zesc b = Some (false, z') -> List.length b < fuel ->
  qstring v fuel q esc zesc acc (b ++ q :: rest) = Some (acc ++ b, rest).
Proof.
  intros Hq. destruct (q_facts q Hq) as (Qb & Ql & Qc & Qq).
  induction b as [|c r IH]; intros fuel esc zesc acc rest z' H Hf.
  - cbn in H. inversion H; subst. destruct fuel; [cbn in Hf; lia|]. cbn [app qstring].
    rewrite Qb, Ql, Qc, Qq. cbn. rewrite app_nil_r. reflexivity.
  - destruct fuel; [cbn in Hf; lia|]. cbn [app qstring]. cbn [qscan] in H.
    assert (Hf' : List.length r < fuel) by (cbn in Hf; lia).
    destruct esc.
    + destruct (eqc c "z" && (v52 v || vluau v || vjit v)).
      * rewrite (IH fuel false true (acc ++ [c]) rest z' H Hf'). rewrite <- app_assoc. reflexivity.
      * rewrite (IH fuel false _ (acc ++ [c]) rest z' H Hf'). rewrite <- app_assoc. reflexivity.
    + destruct (eqc c "\").
      * rewrite (IH fuel true zesc (acc ++ [c]) rest z' H Hf'). rewrite <- app_assoc. reflexivity.
      * destruct (eqc c LF || eqc c CR).
        -- destruct zesc; [|discriminate].
           rewrite (IH fuel false false (acc ++ [c]) rest z' H Hf'). rewrite <- app_assoc. reflexivity.
        -- destruct (eqc c q); [discriminate|].
           rewrite (IH fuel false zesc (acc ++ [c]) rest z' H Hf'). rewrite <- app_assoc. reflexivity.
Qed.

Definition wf_qbody (v : ver) (q : ascii) (b : bytes) : Prop := exists z, qscan v q false false b = Some (false, z).

Theorem single_string_dq v b rest : wf_qbody v """" b -> single v (TStr QDouble 0 b) rest.
Proof.
  intros [z Hz]. unfold single. cbn [show app]. unfold lex_one. cbn -[qstring List.length].
  rewrite <- app_assoc. cbn [app].
  rewrite (qstring_app v """" (or_intror eq_refl) b _ false false [] rest z Hz); [reflexivity|].
  rewrite app_length. cbn. lia.
Qed.
Theorem single_string_sq v b rest : wf_qbody v "'" b -> single v (TStr QSingle 0 b) rest.
Proof.
  intros [z Hz]. unfold single. cbn [show app]. unfold lex_one. cbn -[qstring List.length].
  rewrite <- app_assoc. cbn [app].
  rewrite (qstring_app v "'" (or_introl eq_refl) b _ false false [] rest z Hz); [reflexivity|].
  rewrite app_length. cbn. lia.
Qed.
Print Assumptions single_string_dq.
Print Assumptions lex_loop_render.
