"""C15 - each file is formatted with the configuration the documented search finds (DESIGN 5/C15)."""
import random
from .cli import *

PROBE = "do\nlocal s = 'x' .. \"y\"\nf('z')\nend\n"
NAMES = {"s": "stylua.toml", "d": ".stylua.toml"}

def cfg_text(width, name):
    return 'indent_type = "Spaces"\nindent_width = %d\ncall_parentheses = "%s"\n' % (width, "Always" if name == "s" else "None")

def decode(text):
    """which configuration visibly produced this output: (width or 'tab', quote letter, call parens kept)"""
    lines = text.split("\n")
    body = lines[1] if len(lines) > 1 else ""
    ws = body[:len(body) - len(body.lstrip())]
    width = "tab" if ws.startswith("\t") else str(len(ws))
    single = "'x'" in body            # only the --quote-style ForceSingle override produces single quotes
    name = "d" if ("f 'z'" in text or 'f "z"' in text) else "s"      # .stylua.toml files drop call parentheses
    return width, name, single

def gen(rng, sid):
    sc = dict(id=sid)
    dirs = ["", "p0", "p0/p1", "p0/p1/p2", "p0/p1/p2/p3", "p0/q", "p0/p1/r"]
    sc["cwd"] = rng.choice(["p0", "p0", "p0/p1"])
    sc["configs"] = {}
    wid = 1
    for d in dirs:
        if rng.random() < 0.4:
            sc["configs"][d] = (wid, rng.choice(["s", "d", "sd"])); wid += 1
    inside = [d for d in dirs if d == sc["cwd"] or d.startswith(sc["cwd"] + "/")]
    sc["targets"] = sorted(set(rng.choice(inside) for _ in range(rng.randint(1, 5))))
    sc["search_parent"] = rng.random() < 0.4
    sc["xdg"] = rng.choice([None, None, "xdg", "xdg/stylua"])
    sc["home"] = rng.choice([None, None, "home/.config", "home/.config/stylua"])
    sc["forced"] = rng.random() < 0.15
    sc["editor"] = rng.choice([None, None, "", "p0", "p0/p1"])
    sc["noeditor"] = rng.random() < 0.3
    sc["override"] = rng.random() < 0.5
    sc["style"] = rng.choice(["explicit", "dir", "stdin", "stdin-filepath"])
    return sc

def run_scn(sc):
    root = scratch("c15")
    try:
        for d in ["", "p0", "p0/p1", "p0/p1/p2", "p0/p1/p2/p3", "p0/q", "p0/p1/r", "xdg/stylua", "home/.config/stylua"]:
            os.makedirs(os.path.join(root, d), exist_ok=True)
        recs = ["SCN " + sc["id"]]
        ids = {}
        for d, (w, names) in sc["configs"].items():
            for n in names:
                open(os.path.join(root, d, NAMES[n]), "w").write(cfg_text(w, n))
            first = "s" if "s" in names else "d"          # stylua.toml is looked at first
            recs.append("HAS %s %s" % (os.path.join(root, d).rstrip("/"), "%d%s" % (w, first)))
            ids["%d%s" % (w, first)] = 1
        env = {"XDG_CONFIG_HOME": os.path.join(root, "xdg"), "HOME": os.path.join(root, "home")}
        top = "-"
        # XDG_CONFIG_HOME, XDG_CONFIG_HOME/stylua, HOME/.config, HOME/.config/stylua - in that order
        order = [("xdg", 21), ("xdg/stylua", 22), ("home/.config", 23), ("home/.config/stylua", 24)]
        for d, w in order:
            if sc["xdg"] == d or sc["home"] == d:
                open(os.path.join(root, d, "stylua.toml"), "w").write(cfg_text(w, "s"))
        for d, w in order:
            if sc["xdg"] == d or sc["home"] == d:
                top = "%ds" % w; break
        cwd = os.path.join(root, sc["cwd"])
        recs.append("ROOT NONE" if sc["search_parent"] else "ROOT " + cwd)
        recs.append("TOP " + (top if sc["search_parent"] else "-"))
        args = []
        if sc["search_parent"]: args.append("--search-parent-directories")
        if sc["forced"]:
            open(os.path.join(root, "forced.toml"), "w").write(cfg_text(30, "d"))
            args += ["--config-path", os.path.join(root, "forced.toml")]
            recs.append("FORCED 30d")
        else: recs.append("FORCED -")
        if sc["editor"] is not None:
            open(os.path.join(root, sc["editor"], ".editorconfig"), "w").write("root = true\n[*.lua]\nindent_style = space\nindent_size = 17\nquote_type = double\n")
            recs.append("EDITOR %s %d" % (os.path.join(root, sc["editor"]).rstrip("/"), 1 if sc["noeditor"] else 0))
        else: recs.append("EDITOR - 0")
        if sc["noeditor"]: args.append("--no-editorconfig")
        if sc["override"]: args += ["--quote-style", "ForceSingle"]
        files = []
        for t in sc["targets"]:
            p = os.path.join(root, t, "t.lua")
            open(p, "w").write(PROBE); files.append(p)
        outs = []
        if sc["style"] in ("explicit", "dir"):
            rel = [os.path.relpath(p, cwd) for p in files] if sc["style"] == "explicit" else ["."]
            code, out, err = stylua(args + rel, cwd, env_extra=env)
            for t, p in zip(sc["targets"], files):
                outs.append((os.path.dirname(p), open(p).read(), "file"))
            # with `.` every probe under cwd was a target: they are exactly sc["targets"] by construction
        else:
            for t, p in zip(sc["targets"], files):
                a = list(args)
                if sc["style"] == "stdin-filepath":
                    a += ["--stdin-filepath", os.path.relpath(p, cwd)]
                    where = os.path.dirname(p)
                else:
                    where = cwd
                code, out, err = stylua(a + ["-"], cwd, stdin=PROBE.encode(), env_extra=env)
                outs.append((where, out.decode("utf-8", "replace"), sc["style"]))
        bad_override = False
        for where, text, label in outs:
            width, name, single = decode(text)
            obs = "default" if width == "tab" else ("editor" if width == "17" else width + name)
            if sc["override"] and not single: obs = "override-not-applied(" + obs + ")"
            if not sc["override"] and single: obs = "unexpected-quote(" + obs + ")"
            recs.append("TARGET %s %s %s" % (where.rstrip("/"), obs, label))
        recs.append("END")
        return recs
    finally:
        cleanup(root)

REG_SRC = 'f("x")\ng({ 1 })\n'
def regression_cases():
    out = []
    root = scratch("c15reg")
    try:
        open(os.path.join(root, "stylua.toml"), "w").write("no_call_parentheses = true\n")
        open(os.path.join(root, ".editorconfig"), "w").write("root = true\n")
        for flag, want in (("Always", 'f("x")\ng({ 1 })\n'), ("NoSingleTable", 'f("x")\ng { 1 }\n'), (None, 'f "x"\ng { 1 }\n')):
            code, o, e = stylua((["--call-parentheses", flag] if flag else []) + ["-"], root, stdin=REG_SRC.encode())
            if code != 0 or o.decode("utf-8", "replace") != want:
                out.append("BAD override-not-applied:call_parentheses=%s-over-no_call_parentheses reg-%s" % (flag, flag))
    finally:
        cleanup(root)
    return out

def run(res):
    proof = proof_stage(res, "C15", extra_obligations=1)
    build_ml(); build_cli()
    rng = random.Random(res.seed * 6151 + 15)
    n = 400 if res.tier == "quick" else 6000
    scs = [gen(rng, "s%04d" % i) for i in range(n)]
    lines = [l for recs in pmap(run_scn, scs) for l in recs]
    r = subprocess.run([driver("drv_c15")], input="\n".join(lines) + "\n", stdout=subprocess.PIPE, stderr=subprocess.PIPE, text=True)
    tot, bads, samples = {}, [], []
    for l in r.stdout.splitlines():
        if l.startswith("SUMMARY"): tot = {k: int(v) for k, v in parse_kv(l).items()}
        elif l.startswith("BAD"): bads.append(l)
        elif l.startswith("SAMPLE"): samples.append(l[7:])
    # fixed regression cases: a command line option against EVERY way a configuration file can set the same thing.  The deprecated
    # `no_call_parentheses = true` of a stylua.toml must give way to --call-parentheses (repair D46)
    reg = regression_cases()
    bads += reg
    tie_ok = r.returncode == 0 and not bads and tot.get("scenarios") == n
    if proof["ok"] and tie_ok: res.coverage["discharged"] = proof["discharged"] + 1
    styles = {}
    for sc in scs: styles[sc["style"]] = styles.get(sc["style"], 0) + 1
    res.coverage.update(
        evaluations=tot.get("lookups", 0), distinct_nontrivial=sum(v for k, v in tot.items() if k in ("found", "forced", "editor")),
        rule="%d seeded random trees: a 5-level directory chain with two side branches, a stylua.toml and/or .stylua.toml (each with its own indent_width, the two names with different call_parentheses) at any subset of levels above, at and below the "
             "working directory, optional XDG / HOME configurations, optional .editorconfig, --config-path, --search-parent-directories, --no-editorconfig, a --quote-style override (which the .editorconfig contradicts); 1-5 probe files per tree, given as explicit paths, "
             "through the directory, on stdin, or on stdin with --stdin-filepath. The configuration applied is read off the output (indent width, call form, quote). non-trivial = a lookup not answered by the defaults" % n,
        samples=samples or ["-"], input_distribution=dict(tot, styles=styles),
        correspondence="for every target: extracted CfgSearch.run over the whole history of lookups (memo table included) and CfgSearch.spec agree, and with the precedence of the model give the configuration the binary visibly applied")
    res.assumptions = ["there is no stylua.toml / .editorconfig in the ancestors of the scratch directory (/verif/.cache/tmp ... /)",
                       "ec4rs decides which .editorconfig applies; modelled as: the one with root=true in an ancestor-or-self directory",
                       "targets outside the working directory and paths containing `..` are not generated (the code walks lexical parents; characterised in DESIGN, not specified)"]
    if not proof["ok"] or not tie_ok:
        if bads:
            by = {sc["id"]: sc for sc in scs}
            seen = set()
            for l in bads:
                w = l.split(); key = w[1].split(":")[0]
                if key in seen or len(seen) >= 4: continue
                seen.add(key)
                if w[2].startswith("reg-"):
                    res.violation(dict(kind="input", check=w[1], cli=dict(scenario=dict(id=w[2], files={"stylua.toml": "no_call_parentheses = true\n"}, stdin=REG_SRC, args=["--call-parentheses", w[2][4:], "-"])), expected="command line format options override whatever the configuration file set"))
                    continue
                res.violation(dict(kind="input", check=w[1], cli=dict(scenario=by.get(w[2])), expected="the configuration CfgSearch.spec and the precedence give (C15 theorems)"))
        else:
            res.violation(dict(kind="obligation", obligation=dict(theorem=proof.get("broken_at", "C15 correspondence"), log=proof["log"][-2000:] + r.stderr[-500:])), no_input=True)
    return res

def replay(payload):
    build_ml(); build_cli()
    if str(payload["cli"]["scenario"].get("id", "")).startswith("reg-"):
        bad = regression_cases(); print("\n".join(bad) or "regression cases pass"); return 1 if bad else 0
    recs = run_scn(payload["cli"]["scenario"])
    r = subprocess.run([driver("drv_c15")], input="\n".join(recs) + "\n", stdout=subprocess.PIPE, text=True)
    print("\n".join(recs)); print(r.stdout)
    return 1 if "BAD" in r.stdout else 0
