(* C20: consistency of the option tables generated from /repo's source and README (SVgen.OptionTables), decided by
   computation.  All quantifiers range over the finite generated lists. *)
From Coq Require Import List String Bool Ascii.
Import ListNotations.
From SVgen Require Import OptionTables.
Local Open Scope string_scope.

Definition mem (x : string) (l : list string) : bool := existsb (String.eqb x) l.
Definition subset (a b : list string) : bool := forallb (fun x => mem x b) a.
Definition set_eq (a b : list string) : bool := subset a b && subset b a.
Fixpoint assoc {A} (k : string) (l : list (string * A)) : option A :=
  match l with [] => None | (k', v) :: r => if String.eqb k k' then Some v else assoc k r end.
Definition lower_ascii (c : ascii) : ascii :=
  let n := nat_of_ascii c in if andb (Nat.leb 65 n) (Nat.leb n 90) then ascii_of_nat (n + 32) else c.
Fixpoint lower (s : string) : string := match s with EmptyString => EmptyString | String c r => String (lower_ascii c) (lower r) end.

(* every clap mirror enum lists exactly the variants of the library enum it converts to *)
Definition cli_matches_lib : bool :=
  forallb (fun x__ : string * string * list string => let '(src, _, vs) := x__ in match assoc src lib_enums with Some lv => set_eq vs lv | None => false end) cli_enums.
(* every enum-typed configuration field has a clap mirror *)
Definition enum_fields : list (string * string) :=
  flat_map (fun x__ : string * string * bool => let '(f, ty, dep) := x__ in if dep then [] else match assoc ty lib_enums with Some _ => [(f, ty)] | None => [] end) config_fields.
Definition every_enum_field_has_cli : bool :=
  forallb (fun x__ : string * string => let '(_, ty) := x__ in existsb (fun x__ : string * string * list string => let '(src, _, _) := x__ in String.eqb src ty) cli_enums) enum_fields.
(* the command line carries every non-deprecated configuration field, and load_overrides applies every one of them *)
Definition live_fields : list string := flat_map (fun x__ : string * string * bool => let '(f, _, dep) := x__ in if dep then [] else [f]) config_fields.
Definition cli_carries_all_fields : bool := set_eq format_opts_fields live_fields.
(* ... load_overrides applies every flag, and what it touches beyond the flags are deprecated fields only (since the repair D46 the
   flag --call-parentheses also clears the deprecated no_call_parentheses of a configuration file) *)
Definition deprecated_fields : list string := flat_map (fun x__ : string * string * bool => let '(f, _, dep) := x__ in if dep then [f] else []) config_fields.
Definition overrides_apply_all : bool :=
  subset format_opts_fields override_fields && forallb (fun f => mem f format_opts_fields || mem f deprecated_fields) override_fields.
(* README: every option row names a field; its default is the library's; its "possible options" are exactly the variants *)
Definition readme_row_ok (row : string * string * list string) : bool :=
  let '(name, default, possible) := row in
  match assoc name (map (fun x__ : string * string * bool => let '(f, ty, _) := x__ in (f, ty)) config_fields) with
  | None => false
  | Some ty =>
    match assoc ty lib_enums with
    | Some variants =>
        set_eq possible variants && match assoc ty lib_defaults with Some d => String.eqb d default | None => false end
    | None => match assoc name numeric_defaults with Some d => String.eqb d default | None => false end
    end
  end.
Definition readme_consistent : bool := forallb readme_row_ok readme_options.
Definition readme_complete : bool :=
  subset (flat_map (fun x__ : string * string * bool => let '(f, ty, dep) := x__ in if dep then [] else if String.eqb ty "SortRequiresConfig" then [] else [f]) config_fields)
         (map (fun x__ : string * string * list string => let '(n, _, _) := x__ in n) readme_options).
(* .editorconfig: every choice string is the lower-cased variant name, and every variant it names exists in the enum
   of the field with that key (quote_type has its own three-way vocabulary) *)
Definition editorconfig_choice_ok (c : string * list (string * string)) : bool :=
  let '(key, pairs) := c in
  forallb (fun x__ : string * string => let '(v, s) := x__ in String.eqb (lower v) s) pairs &&
  (if String.eqb key "quote_type" then true
   else if String.eqb key "sort_requires" then true
   else match assoc key (map (fun x__ : string * string * bool => let '(f, ty, _) := x__ in (f, ty)) config_fields) with
        | Some ty => match assoc ty lib_enums with Some variants => subset (map fst pairs) variants | None => false end
        | None => false
        end).
Definition editorconfig_consistent : bool := forallb editorconfig_choice_ok editorconfig_choices.
Definition editorconfig_fields_exist : bool := subset editorconfig_fields live_fields.
