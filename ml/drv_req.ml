(* Tie of gen/RequireKind.v (C12): RQ records of `svh c12`:  RQ <R|G|O as the harness classified> <descriptor>
   descriptor: X (not `local NAME = EXPR`) | <type assertions>:<o | n<hex> | e>:<- | m<hex> | c | i>
   The kernel regenerated from src/sort_requires.rs, applied to the tree the descriptor stands for, must give the kind the
   harness's own transcription gives (which the rest of the C12 judge uses), and must equal its specification. *)
open Util
open ReqGen
let records = ref 0 and bad = ref 0 and members = ref 0 and nearmiss = ref 0
let report k line = incr bad; Printf.printf "BAD %s %s\n" k line
let rec wrap n e = if n <= 0 then e else wrap (n - 1) (Expression_TypeAssertion (e, ()))
let tree d : expression option =
  match SS.split_on_char ':' d with
  | [n; p; sfx] ->
    let n = int_of_string n in
    if p = "o" then Some (wrap n Expression_Other)
    else begin
      let prefix = if p = "e" then Prefix_Expression () else Prefix_Name (TokenType_Identifier (unhex (SS.sub p 1 (SS.length p - 1)))) in
      let sufs = (match sfx with
        | "-" -> [] | "c" -> [Suffix_Call (Call_AnonymousCall ())] | "i" -> [Suffix_Index ()]
        | m -> [Suffix_Call (Call_MethodCall (TokenType_Identifier (unhex (SS.sub m 1 (SS.length m - 1)))))]) in
      Some (wrap n (Expression_FunctionCall { prefix0 = prefix; suffixes = sufs }))
    end
  | _ -> None
let handle line = match words line with
  | ["RQ"; k; d] ->
    incr records;
    if d = "X" then (if k <> "O" then report "harness-classified-a-non-candidate" line)
    else (match tree d with
      | None -> report "unreadable-descriptor" line
      | Some e ->
        let g = get_expression_kind e and sp = kind_spec e in
        let gk = (match g with Some GroupKind_Require -> "R" | Some GroupKind_GetService -> "G" | None -> "O") in
        if g <> sp then report "generated-kernel-differs-from-specification" line
        else if gk <> k then report "classification-differs-from-generated-kernel" line
        else if gk <> "O" then incr members else incr nearmiss)
  | [] -> ()
  | _ -> ()
let () = iter_lines handle; Printf.printf "SUMMARY records=%d members=%d candidates_rejected=%d bad=%d\n" !records !members !nearmiss !bad
