(* C05 - parentheses are dropped only where they cannot matter.  Statements only. *)
From Coq Require Import List.
From SV Require Expr PrattProof FmAst Parens ParensTie ParensProof.
From SVgen Require CheckExcess.
Import Expr Parens.

(* Tie 1: the kernel translated from /repo's check_excess_parentheses is the model's [check] *)
Theorem C05_generated_kernel_is_model : forall e c,
  CheckExcess.check_excess_parentheses (ParensTie.embed e) (ParensTie.embed_ctx c) = check e c.
Proof. exact ParensTie.generated_check_is_model. Qed.
Print Assumptions C05_generated_kernel_is_model.
Theorem C05_generated_kernel_leaves : forall c,
  CheckExcess.check_excess_parentheses (FmAst.Expression_Symbol (FmAst.TokenType_Symbol FmAst.Symbol_Ellipsis)) c = false /\
  CheckExcess.check_excess_parentheses (FmAst.Expression_Symbol (FmAst.TokenType_Symbol FmAst.Symbol_Nil)) c = true /\
  CheckExcess.check_excess_parentheses (FmAst.Expression_Symbol (FmAst.TokenType_Symbol FmAst.Symbol_True)) c = true /\
  CheckExcess.check_excess_parentheses (FmAst.Expression_Symbol (FmAst.TokenType_Symbol FmAst.Symbol_False)) c = true /\
  CheckExcess.check_excess_parentheses (FmAst.Expression_FunctionCall tt) c = false.
Proof. exact ParensTie.generated_check_leaves. Qed.
Print Assumptions C05_generated_kernel_leaves.
(* ... and the guard translated from /repo's parenthesise_double_minus (with the starts_with_minus inside it) is the model's [guard]:
   parentheses come back exactly around an operand of a unary minus that starts - through type assertions - with a unary minus *)
From SV Require MinusGuardProof.
From SVgen Require MinusGuard.
Theorem C05_generated_guard_is_model : forall oracle : FmAst.Expression -> FmAst.Expression * unit, (forall e, fst (oracle e) = e) ->
  forall u x, MinusGuard.parenthesise_double_minus oracle (ParensTie.embed_uop u) (ParensTie.embed x) = ParensTie.embed (guard u x).
Proof. exact MinusGuardProof.generated_guard_is_model. Qed.
Print Assumptions C05_generated_guard_is_model.

(* For every context, every expression and EVERY result the rule can give on any mixture of the single-line and
   hanging paths (R): grouping and multi-value truncation are unchanged ... *)
Theorem C05_grouping_and_truncation_preserved : forall c e o, R c e o -> Sm o = Sm e.
Proof. exact ParensProof.R_sem. Qed.
Check C05_grouping_and_truncation_preserved : forall c e o, R c e o -> Sm o = Sm e.
Print Assumptions C05_grouping_and_truncation_preserved.
(* ... the result is again a tree the parser returns for its own print-out (so re-parsing gives that same tree:
   Luau type assertions and if-expressions stay attached to their operand) ... *)
Theorem C05_canonical_preserved : forall c e o, R c e o -> can e = true -> can o = true.
Proof. exact ParensProof.R_can. Qed.
Print Assumptions C05_canonical_preserved.
Theorem C05_canonical_reparses : forall e, can e = true -> parse (tokens e) = Some e.
Proof. exact PrattProof.pratt_roundtrip. Qed.
Check C05_canonical_reparses : forall e, can e = true -> parse (tokens e) = Some e.
Print Assumptions C05_canonical_reparses.
Theorem C05_reparsed_output_has_input_tree : forall c e o, R c e o -> can e = true ->
  exists o', parse (tokens o) = Some o' /\ Sm o' = Sm e.
Proof.
  intros c e o H K. exists o. split.
  - apply PrattProof.pratt_roundtrip. exact (ParensProof.R_can c e o H K).
  - exact (ParensProof.R_sem c e o H).
Qed.
Print Assumptions C05_reparsed_output_has_input_tree.
(* ... and a unary minus is never exposed to a following minus sign *)
Theorem C05_no_double_minus : forall c e o, R c e o -> can e = true -> no_double_minus o = true.
Proof. exact ParensProof.R_no_double_minus. Qed.
Print Assumptions C05_no_double_minus.
(* both formatters are members of R; membership is decidable (used by the correspondence check) *)
Theorem C05_paths_in_R : forall e c, R c e (fmt_single c e) /\ R c e (fmt_hang c e).
Proof. intros e c. split; [apply ParensProof.fmt_single_R|apply ParensProof.fmt_hang_R]. Qed.
Print Assumptions C05_paths_in_R.
Theorem C05_membership_sound : forall e c o, inR c e o = true -> R c e o.
Proof. exact ParensProof.inR_sound. Qed.
Print Assumptions C05_membership_sound.
(* conditions (if / elseif / while / until) lose every layer of parentheses around them (stmt.rs remove_condition_parentheses, D42):
   a condition uses the first value of its expression only, and neither the stripping nor the rule applied to what remains
   changes that first value - while elsewhere the same parentheses do matter *)
From SV Require ParensIdem.
Theorem C05_condition_parentheses_cannot_matter : forall e,
  first_value (Sm (fmt_single Std (strip e))) = first_value (Sm e).
Proof. exact ParensIdem.condition_rule_keeps_first_value. Qed.
Print Assumptions C05_condition_parentheses_cannot_matter.
Theorem C05_the_same_parentheses_matter_elsewhere :
  Sm (Paren Multi) <> Sm Multi /\ first_value (Sm (Paren Multi)) = first_value (Sm Multi).
Proof. exact ParensIdem.parentheses_truncate. Qed.
Print Assumptions C05_the_same_parentheses_matter_elsewhere.
(* ... and the same on L0 trees: the condition rule of the whole-formatter model (Fmt0.ncond: every layer goes, then the ordinary rule)
   keeps the first value of the condition *)
From SV Require Fmt0 Fmt0Idem.
Theorem C05_L0_condition_rule_keeps_the_first_value : forall e,
  first_value (Sm (Fmt0.shape (Fmt0.ncond e))) = first_value (Sm (Fmt0.shape e)).
Proof. exact Fmt0Idem.ncond_keeps_the_first_value. Qed.
Print Assumptions C05_L0_condition_rule_keeps_the_first_value.
