//! C12 tie: programs whose top level interleaves require / GetService locals with other statements, blank lines,
//! comments and ignore directives; the input's statement list and the sorted output's go to the Coq judge.
use crate::common::*;
use crate::stmts::*;

const NAMES: &[&str] = &["b", "a", "C", "c", "aa", "A", "_x", "b", "a2", "Z", "z", "B", "ab", "a"];
const SERVICES: &[&str] = &["Players", "Workspace", "ReplicatedStorage", "Lighting"];

fn gen_program(rng: &mut Rng, luau: bool) -> String {
    let mut out = String::new();
    let n = 2 + rng.below(14);
    let mut in_region = false;
    for i in 0..n {
        if rng.chance(1, 7) { out.push('\n'); }                       // blank line: closes a group
        if rng.chance(1, 9) { out.push_str(&format!("-- note {}\n", i)); }  // comment line: closes a group too
        if rng.chance(1, 14) && !in_region { out.push_str("-- stylua: ignore start\n"); in_region = true; }
        else if rng.chance(1, 5) && in_region { out.push_str("-- stylua: ignore end\n"); in_region = false; }
        if rng.chance(1, 16) { out.push_str("-- stylua: ignore\n"); }
        if rng.chance(1, 10) { out.push_str(&format!("--[[c{}]] ", i)); }     // comment on the statement's own line
        // directives written as block comments on the statement's own line: they do not close the group, so an ignored
        // statement can sit in the middle of one
        if rng.chance(1, 18) { out.push_str("--[[ stylua: ignore ]] "); }
        else if rng.chance(1, 30) && !in_region { out.push_str("--[[ stylua: ignore start ]] "); in_region = true; }
        else if rng.chance(1, 12) && in_region { out.push_str("--[[ stylua: ignore end ]] "); in_region = false; }
        let name = *rng.pick(NAMES);
        let line = match rng.below(12) {
            0..=5 => {
                let path = format!("{}{}", name, rng.below(3));
                match rng.below(5) {
                    0 => format!("local {} = require(\"{}\")", name, path),
                    1 => format!("local {}   =   require '{}'", name, path),
                    2 => format!("local {} = require(script.Parent.{})", name, name),
                    // two requires on one line (a line distance of zero between the members of a group)
                    3 if rng.chance(1, 3) => { let n2 = *rng.pick(NAMES); format!("local {} = require(\"{}\") local {} = require(\"{}0\")", name, path, n2, n2) }
                    3 => format!("local {} = require(\n\t\"{}\"\n)", name, path),
                    _ => if luau { format!("local {} = require(\"{}\") :: any", name, path) } else { format!("local {} = require(\"{}\")", name, path) },
                }
            }
            6 | 7 => format!("local {} = game:GetService(\"{}\")", name, rng.pick(SERVICES)),
            8 => format!("local {}, other{} = require(\"x\"), require(\"y\")", name, i),
            9 => format!("{} = require(\"assigned\")", name),
            10 => match rng.below(8) {
                // near misses and odd members of the classification
                0 => format!("local {} = game.GetService(\"Players\")", name),
                1 => format!("local {} = game:FindFirstChild(\"x\")", name),
                2 => format!("local {} = (require)(\"m\")", name),
                3 => format!("local {} = require(\"m\").field", name),
                4 => format!("local {} = requirex(\"m\")", name),
                5 => format!("local {} = game", name),
                6 => format!("local {} = require", name),
                _ => format!("local v{} = {}", i, i),
            },
            _ => format!("print(\"{}\")", i),
        };
        out.push_str(&line);
        if rng.chance(1, 6) { out.push_str(" ;"); }
        if rng.chance(1, 6) { out.push_str(&format!(" -- t{}", i)); }
        out.push('\n');
    }
    if rng.chance(1, 3) { out.push_str("return a\n"); }
    out
}

fn dump(tag: &str, stmts: &[TopStmt], out: &mut dyn std::io::Write) {
    for s in stmts {
        if tag == "IN" { writeln!(out, "RQ {} {}", match &s.req { Some((true, _, _)) => "G", Some((false, _, _)) => "R", None => "O" }, s.desc).unwrap(); }
        let req = match &s.req { Some((k, n, l)) => format!("{} {} {}", if *k { "G" } else { "R" }, hex(n.as_bytes()), l), None => "O - 0".into() };
        writeln!(out, "{} {} {} {} {} {} {} {}", tag, req, s.start_line, s.end_line, if s.skip { 0 } else { 1 }, hex(s.key.as_bytes()), hexlist(&s.lead), hexlist(&s.trail)).unwrap();
    }
}

fn run_one(out: &mut dyn std::io::Write, id: &str, syn: &str, src: &str) -> bool {
    let v = syntax(syn);
    let ast = match full_moon::parse_fallible(src, v.into()).into_result() { Ok(a) => a, Err(_) => return false };
    writeln!(out, "CASE {} {} {}", id, syn, hex(src.as_bytes())).unwrap();
    dump("IN", &top_statements(&ast), out);
    for (tag, sort) in [("ON", "true"), ("OFF", "false")] {
        let cfg = config(&[&format!("syntax={}", syn), &format!("sort_requires={}", sort)]);
        match format_guarded(src, cfg, None) {
            Outcome::Ok(o) => match full_moon::parse_fallible(&o, v.into()).into_result() {
                Ok(oast) => dump(tag, &top_statements(&oast), out),
                Err(_) => writeln!(out, "{}ERR noparse {}", tag, hex(o.as_bytes())).unwrap(),
            },
            Outcome::ParseError => writeln!(out, "{}ERR parseerror", tag).unwrap(),
            Outcome::OtherError(e) => writeln!(out, "{}ERR error {}", tag, hex(e.as_bytes())).unwrap(),
            Outcome::Panic(e) => writeln!(out, "{}ERR panic {}", tag, hex(e.as_bytes())).unwrap(),
        }
    }
    writeln!(out, "END").unwrap();
    true
}

pub fn main(args: &[String]) {
    silence_panics();
    let (mut n, mut seed, mut shard, mut shards) = (1000usize, 0u64, 0usize, 1usize);
    let mut one: Option<(String, String)> = None;
    let mut dir: Option<String> = None;
    let mut i = 0;
    while i < args.len() {
        match args[i].as_str() {
            "--n" => { n = args[i + 1].parse().unwrap(); i += 1 }
            "--seed" => { seed = args[i + 1].parse().unwrap(); i += 1 }
            "--shard" => { let (a, b) = args[i + 1].split_once('/').unwrap(); shard = a.parse().unwrap(); shards = b.parse().unwrap(); i += 1 }
            "--one" => { one = Some((args[i + 1].clone(), args[i + 2].clone())); i += 2 }
            "--dir" => { dir = Some(args[i + 1].clone()); i += 1 }
            _ => panic!("c12: unknown argument {}", args[i]),
        }
        i += 1;
    }
    let stdout = std::io::stdout();
    let mut out = std::io::BufWriter::new(stdout.lock());
    use std::io::Write;
    if let Some((syn, srchex)) = one {
        run_one(&mut out, "one", &syn, &String::from_utf8(unhex(&srchex)).unwrap());
        return;
    }
    let mut cases = 0;
    if let Some(d) = dir {
        let mut files: Vec<_> = std::fs::read_dir(&d).unwrap().filter_map(|e| e.ok()).map(|e| e.path()).collect();
        files.sort();
        for (k, p) in files.iter().enumerate() {
            if k % shards != shard { continue; }
            if let Ok(src) = std::fs::read_to_string(p) {
                if run_one(&mut out, &format!("file:{}", p.file_name().unwrap().to_string_lossy()), "Luau", &src) { cases += 1; }
            }
        }
    }
    let mut rng = Rng(seed ^ 0xC12);
    for k in 0..n {
        let luau = rng.chance(1, 2);
        let src = gen_program(&mut rng, luau);
        if k % shards != shard { continue; }
        if run_one(&mut out, &format!("g{}", k), if luau { "Luau" } else { "Lua51" }, &src) { cases += 1; }
    }
    writeln!(out, "STATS cases={}", cases).unwrap();
}
