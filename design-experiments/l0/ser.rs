// L0 spike serializer: full_moon AST -> S-expression for the fragment; prints CASE / AST / OUT lines.
use full_moon::ast::*;
use full_moon::ast::punctuated::Punctuated;
use full_moon::node::Node;
use full_moon::tokenizer::{Token, TokenReference, TokenType, StringLiteralQuoteType, Symbol};
use stylua_lib as st;

struct Unsup(String);
type R<T> = Result<T, Unsup>;
fn unsup<T>(s: &str) -> R<T> { Err(Unsup(s.to_string())) }
fn hex(s: &str) -> String { if s.is_empty() { "#".into() } else { format!("#{}", s.bytes().map(|b| format!("{:02x}", b)).collect::<String>()) } }

fn triv(t: &Token) -> R<String> {
    Ok(match t.token_type() {
        TokenType::Whitespace { characters } => format!("(ws {})", hex(characters)),
        TokenType::SingleLineComment { comment } => format!("(lc {})", hex(comment)),
        TokenType::MultiLineComment { blocks, comment } => format!("(bc {} {})", blocks, hex(comment)),
        TokenType::Shebang { line } => format!("(sb {})", hex(line)),
        _ => return unsup("trivia kind"),
    })
}
fn trivs<'a>(it: impl Iterator<Item = &'a Token>) -> R<String> { let mut v = vec![]; for t in it { v.push(triv(t)?); } Ok(format!("({})", v.join(" "))) }
fn has_comment<'a>(mut it: impl Iterator<Item = &'a Token>) -> bool { it.any(|t| matches!(t.token_type(), TokenType::SingleLineComment{..} | TokenType::MultiLineComment{..} | TokenType::Shebang{..})) }

struct Ser { nested: Vec<(usize, usize)> }
impl Ser {
    fn name(&self, t: &TokenReference) -> R<String> { match t.token_type() { TokenType::Identifier { identifier } => Ok(hex(identifier)), _ => unsup("name token") } }
    fn exprs(&mut self, p: &Punctuated<Expression>) -> R<String> { let mut v = vec![]; for e in p.iter() { v.push(self.expr(e)?); } Ok(format!("({})", v.join(" "))) }
    fn fields(&mut self, t: &TableConstructor) -> R<String> {
        let mut v = vec![];
        for f in t.fields().iter() { v.push(match f {
            Field::NoKey(e) => format!("(fpos {})", self.expr(e)?),
            Field::NameKey { key, value, .. } => format!("(fname {} {})", self.name(key)?, self.expr(value)?),
            Field::ExpressionKey { key, value, .. } => format!("(fexpr {} {})", self.expr(key)?, self.expr(value)?),
            _ => return unsup("field"),
        }); }
        let nl = t.braces().tokens().0.trailing_trivia().any(|x| matches!(x.token_type(), TokenType::Whitespace { characters } if characters.contains('\n')));
        Ok(format!("(tbl ({}) {})", v.join(" "), if nl { 1 } else { 0 }))
    }
    fn strtok(&self, t: &TokenReference) -> R<String> { match t.token_type() {
        TokenType::StringLiteral { literal, multi_line_depth, quote_type } => Ok(match quote_type {
            StringLiteralQuoteType::Single => format!("(str sq 0 {})", hex(literal)),
            StringLiteralQuoteType::Double => format!("(str dq 0 {})", hex(literal)),
            StringLiteralQuoteType::Brackets => format!("(str br {} {})", multi_line_depth, hex(literal)),
            _ => return unsup("quote type"),
        }), _ => unsup("string token") } }
    fn args(&mut self, a: &FunctionArgs) -> R<String> { Ok(match a {
        FunctionArgs::Parentheses { arguments, .. } => format!("(aparen {})", self.exprs(arguments)?),
        FunctionArgs::String(t) => format!("(astr {})", self.strtok(t)?),
        FunctionArgs::TableConstructor(t) => format!("(atbl {})", self.fields(t)?),
        _ => return unsup("args"),
    }) }
    fn suffix(&mut self, s: &Suffix) -> R<String> { Ok(match s {
        Suffix::Index(Index::Dot { name, .. }) => format!("(sdot {})", self.name(name)?),
        Suffix::Index(Index::Brackets { expression, .. }) => format!("(sidx {})", self.expr(expression)?),
        Suffix::Call(Call::AnonymousCall(a)) => format!("(scall {})", self.args(a)?),
        Suffix::Call(Call::MethodCall(m)) => format!("(smeth {} {})", self.name(m.name())?, self.args(m.args())?),
        _ => return unsup("suffix"),
    }) }
    fn prefix(&mut self, p: &Prefix) -> R<String> { Ok(match p {
        Prefix::Name(n) => format!("(pname {})", self.name(n)?),
        Prefix::Expression(e) => match &**e { Expression::Parentheses { expression, .. } => format!("(pparen {})", self.expr(expression)?), _ => return unsup("prefix expr") },
        _ => return unsup("prefix"),
    }) }
    fn callish<'a>(&mut self, p: &Prefix, sufs: impl Iterator<Item = &'a Suffix>) -> R<String> {
        let pre = self.prefix(p)?; let mut v = vec![]; for s in sufs { v.push(self.suffix(s)?); }
        Ok(format!("(chain {} ({}))", pre, v.join(" ")))
    }
    fn body(&mut self, b: &FunctionBody) -> R<String> {
        let mut ps = vec![];
        for p in b.parameters().iter() { ps.push(match p { Parameter::Name(n) => format!("(pn {})", self.name(n)?), Parameter::Ellipsis(_) => "(pvar)".to_string(), _ => return unsup("param") }); }
        if b.return_type().is_some() || b.type_specifiers().any(|x| x.is_some()) || b.generics().is_some() { return unsup("types"); }
        Ok(format!("({}) {}", ps.join(" "), self.block(b.block())?))
    }
    fn expr(&mut self, e: &Expression) -> R<String> { Ok(match e {
        Expression::Symbol(t) => match t.token_type() { TokenType::Symbol { symbol } => match symbol { Symbol::Nil => "(nil)".into(), Symbol::True => "(true)".into(), Symbol::False => "(false)".into(), Symbol::Ellipsis => "(varargs)".into(), _ => return unsup("symbol expr") }, _ => return unsup("symbol expr") },
        Expression::Number(t) => match t.token_type() { TokenType::Number { text } => format!("(num {})", hex(text)), _ => return unsup("number") },
        Expression::String(t) => self.strtok(t)?,
        Expression::Var(Var::Name(n)) => format!("(name {})", self.name(n)?),
        Expression::Var(Var::Expression(v)) => self.callish(v.prefix(), v.suffixes())?,
        Expression::FunctionCall(c) => self.callish(c.prefix(), c.suffixes())?,
        Expression::Parentheses { expression, .. } => format!("(paren {})", self.expr(expression)?),
        Expression::UnaryOperator { unop, expression } => format!("(un {} {})", match unop { UnOp::Minus(_) => "neg", UnOp::Not(_) => "not", UnOp::Hash(_) => "len", UnOp::Tilde(_) => "bnot", _ => return unsup("unop") }, self.expr(expression)?),
        Expression::BinaryOperator { lhs, binop, rhs } => format!("(bin {} {} {})", hex(binop.token().token().to_string().trim()), self.expr(lhs)?, self.expr(rhs)?),
        Expression::Function(f) => format!("(func {})", self.body(&f.1)?),
        Expression::TableConstructor(t) => self.fields(t)?,
        _ => return unsup("expression kind"),
    }) }
    fn vars(&mut self, p: &Punctuated<Var>) -> R<String> { let mut v = vec![]; for x in p.iter() { v.push(match x { Var::Name(n) => format!("(name {})", self.name(n)?), Var::Expression(ve) => self.callish(ve.prefix(), ve.suffixes())?, _ => return unsup("var") }); } Ok(format!("({})", v.join(" "))) }
    fn names(&self, p: &Punctuated<TokenReference>) -> R<String> { let mut v = vec![]; for n in p.iter() { v.push(self.name(n)?); } Ok(format!("({})", v.join(" "))) }
    fn stmt(&mut self, s: &Stmt) -> R<String> { Ok(match s {
        Stmt::LocalAssignment(l) => { if l.attributes().any(|x| x.is_some()) || l.type_specifiers().any(|x| x.is_some()) { return unsup("attribs"); } format!("(local {} {})", self.names(l.names())?, self.exprs(l.expressions())?) }
        Stmt::Assignment(a) => format!("(assign {} {})", self.vars(a.variables())?, self.exprs(a.expressions())?),
        Stmt::FunctionCall(c) => format!("(callstmt {})", self.callish(c.prefix(), c.suffixes())?),
        Stmt::Do(d) => format!("(do {})", self.block(d.block())?),
        Stmt::While(w) => format!("(while {} {})", self.expr(w.condition())?, self.block(w.block())?),
        Stmt::Repeat(r) => format!("(repeat {} {})", self.block(r.block())?, self.expr(r.until())?),
        Stmt::If(i) => { let mut v = vec![]; if let Some(eis) = i.else_if() { for ei in eis { v.push(format!("({} {})", self.expr(ei.condition())?, self.block(ei.block())?)); } }
            let els = match i.else_block() { Some(b) => format!("(some {})", self.block(b)?), None => "(none)".into() };
            format!("(if {} {} ({}) {})", self.expr(i.condition())?, self.block(i.block())?, v.join(" "), els) }
        Stmt::NumericFor(f) => { if f.type_specifier().is_some() { return unsup("types"); } format!("(numfor {} {} {} {} {})", self.name(f.index_variable())?, self.expr(f.start())?, self.expr(f.end())?, match f.step() { Some(e) => format!("(some {})", self.expr(e)?), None => "(none)".into() }, self.block(f.block())?) }
        Stmt::GenericFor(f) => { if f.type_specifiers().any(|x| x.is_some()) { return unsup("types"); } format!("(genfor {} {} {})", self.names(f.names())?, self.exprs(f.expressions())?, self.block(f.block())?) }
        Stmt::FunctionDeclaration(f) => { let n = f.name(); let meth = match n.method_name() { Some(m) => format!("(some {})", self.name(m)?), None => "(none)".into() }; format!("(function {} {} {})", self.names(n.names())?, meth, self.body(f.body())?) }
        Stmt::LocalFunction(f) => format!("(localfunction {} {})", self.name(f.name())?, self.body(f.body())?),
        _ => return unsup("statement kind"),
    }) }
    fn first_last<'a>(&self, node: &'a impl Node) -> (&'a TokenReference, &'a TokenReference) {
        // `tokens()` is not in source order (contained spans yield both ends first): order by position
        let mut toks: Vec<&TokenReference> = node.tokens().collect();
        toks.sort_by_key(|t| t.token().start_position().bytes());
        (toks[0], toks[toks.len() - 1])
    }
    fn check_own_tokens(&self, node: &impl Node, nested_from: usize) -> R<()> {
        let (first, last) = self.first_last(node);
        let (fp, lp) = (first.token().start_position().bytes(), last.token().start_position().bytes());
        for t in node.tokens() {
            let pos = t.token().start_position().bytes();
            if self.nested[nested_from..].iter().any(|(a, b)| pos >= *a && pos < *b) { continue; }
            if pos != fp && has_comment(t.leading_trivia()) { return unsup("comment inside statement (leading)"); }
            if pos != lp && has_comment(t.trailing_trivia()) { return unsup("comment inside statement (trailing)"); }
        }
        Ok(())
    }
    fn item(&mut self, node: &impl Node, body: String, semi: Option<&TokenReference>, nested_from: usize) -> R<String> {
        self.check_own_tokens(node, nested_from)?;
        let (first, last) = self.first_last(node);
        let semi_s = match semi { None => "(nosemi)".to_string(), Some(s) => format!("(semi {} {})", trivs(s.leading_trivia())?, trivs(s.trailing_trivia())?) };
        Ok(format!("(item {} {} {} {})", trivs(first.leading_trivia())?, body, semi_s, trivs(last.trailing_trivia())?))
    }
    fn block(&mut self, b: &Block) -> R<String> {
        let mut v = vec![];
        for (s, semi) in b.stmts_with_semicolon() {
            let from = self.nested.len();
            let body = self.stmt(s)?;
            v.push(self.item(s, body, semi.as_ref(), from)?);
        }
        if let Some((ls, semi)) = b.last_stmt_with_semicolon() {
            let from = self.nested.len();
            let body = match ls { LastStmt::Break(_) => "(break)".to_string(), LastStmt::Return(r) => format!("(return {})", self.exprs(r.returns())?), _ => return unsup("last stmt") };
            v.push(self.item(ls, body, semi.as_ref(), from)?);
        }
        if let (Some(a), Some(z)) = (b.start_position(), b.end_position()) { self.nested.push((a.bytes(), z.bytes() + 1)); }
        Ok(format!("(block {})", v.join(" ")))
    }
}

fn main() {
    let args: Vec<String> = std::env::args().collect();
    let preset: usize = args[1].parse().unwrap();
    for path in &args[2..] {
        let src = match std::fs::read_to_string(path) { Ok(s) => s, Err(_) => continue };
        let mut cfg = st::Config::default(); cfg.syntax = st::LuaVersion::Lua51; cfg.column_width = usize::MAX;
        match preset {
            1 => { cfg.line_endings = st::LineEndings::Windows; cfg.indent_type = st::IndentType::Spaces; cfg.indent_width = 3; cfg.quote_style = st::QuoteStyle::AutoPreferSingle; }
            2 => { cfg.quote_style = st::QuoteStyle::ForceSingle; cfg.call_parentheses = st::CallParenType::None; cfg.space_after_function_names = st::SpaceAfterFunctionNames::Always; }
            3 => { cfg.quote_style = st::QuoteStyle::ForceDouble; cfg.call_parentheses = st::CallParenType::NoSingleString; cfg.space_after_function_names = st::SpaceAfterFunctionNames::Calls; }
            4 => { cfg.call_parentheses = st::CallParenType::NoSingleTable; cfg.space_after_function_names = st::SpaceAfterFunctionNames::Definitions; cfg.indent_type = st::IndentType::Spaces; cfg.indent_width = 1; }
            5 => { cfg.call_parentheses = st::CallParenType::Input; }
            _ => {}
        }
        let ast = match full_moon::parse_fallible(&src, full_moon::LuaVersion::lua51()).into_result() { Ok(a) => a, Err(_) => { println!("CASE {}\nPARSEERR", path); continue } };
        let mut ser = Ser { nested: vec![] };
        let r = ser.block(ast.nodes()).and_then(|b| { let eof = ast.eof(); Ok(format!("(program {} {})", b, trivs(eof.leading_trivia())?)) });
        match r {
            Err(Unsup(why)) => println!("CASE {}\nUNSUPPORTED {}", path, why),
            Ok(sx) => match st::format_code(&src, cfg, None, st::OutputVerification::None) {
                Ok(out) => println!("CASE {}\nAST {}\nOUT {}", path, sx, hex(&out)),
                Err(_) => println!("CASE {}\nFMTERR", path),
            }
        }
    }
}
