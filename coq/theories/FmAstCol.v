(* Mirror of the full_moon types inspected by the collapse rule of src/formatters/trivia_util.rs (is_expression_simple,
   is_last_stmt_simple, is_block_simple), for rs2v's kernel collapse_rule.  Only what the kernel looks at is kept; every
   enum the source closes with an `unreachable!()` arm has a constructor the mirror never builds, so that the arm is not
   redundant. *)
From Coq Require Import List.
Inductive Expression :=
| Expression_Function (t : unit)
| Expression_FunctionCall (c : FunctionCall)
| Expression_Other
with FunctionCall := mkFunctionCall (sfx : list Suffix)
with Suffix := Suffix_Index (t : unit) | Suffix_Call (c : Call) | Suffix_Unknown
with Call := Call_AnonymousCall (a : FunctionArgs) | Call_MethodCall (m : MethodCall) | Call_Unknown
with MethodCall := mkMethodCall (a : FunctionArgs)
with FunctionArgs := FunctionArgs_Parentheses (parentheses : unit) (arguments : list Expression) | FunctionArgs_Other.
Definition suffixes (f : FunctionCall) : list Suffix := match f with mkFunctionCall s => s end.
Definition args (m : MethodCall) : FunctionArgs := match m with mkMethodCall a => a end.
(* a local assignment and an assignment: the same record serves both (names / variables, expressions) *)
Record Assign := { names : list unit; variables : list unit; expressions : list Expression }.
Inductive Stmt := Stmt_LocalAssignment (a : Assign) | Stmt_Assignment (a : Assign) | Stmt_FunctionCall (t : unit) | Stmt_Goto (t : unit) | Stmt_Other.
Record Return := { returns : list Expression }.
Inductive LastStmt := LastStmt_Break (t : unit) | LastStmt_Continue (t : unit) | LastStmt_Return (r : Return) | LastStmt_Unknown.
Record Block := { stmts : list Stmt; last_stmt : option LastStmt }.
(* `.unwrap()`: only reached behind an `is_some()` / a count; the default is never observed *)
Class Dflt (A : Type) := dflt : A.
#[export] Instance dflt_stmt : Dflt Stmt := Stmt_Other.
#[export] Instance dflt_last : Dflt LastStmt := LastStmt_Unknown.
Definition rs_unwrap {A : Type} `{Dflt A} (o : option A) : A := match o with Some x => x | None => dflt end.
(* `unreachable!()` in a function that returns bool *)
Definition rs_unreachable : bool := false.
