(* Tie 1 for the `- -` guard: the functions generated from /repo's parenthesise_double_minus (and the starts_with_minus inside
   it) by rs2v compute the hand-written [starts_neg] and [guard] on the image of the model's expressions.  Re-proved on
   every run against the regenerated SVgen.MinusGuard.  The one call the translation leaves open,
   trivia_util::take_trailing_comments, moves comments and returns the expression it was given: the mirror holds no trivia,
   so its specification here is "returns its argument". *)
From Coq Require Import List Bool.
From SV Require Import FmAst Expr Parens ParensTie.
From SVgen Require Import MinusGuard.

Lemma generated_starts_with_minus_is_model : forall e, starts_with_minus (embed e) = starts_neg e.
Proof. induction e as [| |x IH|u x IH|b l IHl r IHr|x IH|x IH]; try reflexivity; [destruct u; reflexivity|exact IH]. Qed.
Theorem generated_guard_is_model (oracle : Expression -> Expression * unit) :
  (forall e, fst (oracle e) = e) -> forall u x, parenthesise_double_minus oracle (embed_uop u) (embed x) = embed (guard u x).
Proof.
  intros Ho u x. unfold parenthesise_double_minus, guard. destruct u; try reflexivity. cbn [embed_uop].
  rewrite generated_starts_with_minus_is_model. destruct (starts_neg x); [|reflexivity].
  specialize (Ho (embed x)). destruct (oracle (embed x)) as [e' t]. cbn [fst] in Ho. subst e'. reflexivity.
Qed.
(* the leaves of full_moon's Expression the model has no constructor for never start with a minus *)
Lemma generated_starts_with_minus_leaves : forall t, starts_with_minus (Expression_Symbol t) = false /\ starts_with_minus Expression_Other = false.
Proof. intros t. split; reflexivity. Qed.
