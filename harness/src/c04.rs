//! C04 tie: exhaustive string bodies (and numeric spellings) through format_code.
//! Emits one record per (dialect, style, ending, literal); the extracted Coq model judges them.
use crate::common::*;
use full_moon::tokenizer::TokenType;

/// The escape-relevant alphabet of the property plus CR, tab and a two-byte character.
pub const FULL: &[&str] = &[
    "'", "\"", "\\", "n", "0", "9", "x", "u", "{", "}", "z", "a", "q", "\n", "\r", " ", "\u{e9}", "e", "2", "\t", "[", "]", "=",
];
pub const CORE: &[&str] = &["'", "\"", "\\", "z", "\n", "0", " ", "x"];
pub const BRACKET: &[&str] = &["\n", "\r", "a", "]", "=", "\\", "'", " "];

fn enumerate(alpha: &[&str], k: usize, f: &mut dyn FnMut(&str)) {
    // all words of length <= k, in length-lexicographic order
    let mut idx: Vec<usize> = vec![];
    loop {
        let w: String = idx.iter().map(|&i| alpha[i]).collect();
        f(&w);
        // increment
        let mut p = idx.len();
        loop {
            if p == 0 {
                idx = vec![0; idx.len() + 1];
                break;
            }
            p -= 1;
            if idx[p] + 1 < alpha.len() {
                idx[p] += 1;
                for q in p + 1..idx.len() {
                    idx[q] = 0;
                }
                break;
            }
        }
        if idx.len() > k {
            return;
        }
    }
}

fn literal_text(form: &str, depth: usize, body: &str) -> String {
    match form {
        "s" => format!("'{}'", body),
        "d" => format!("\"{}\"", body),
        _ => format!("[{}[{}]{}]", "=".repeat(depth), body, "=".repeat(depth)),
    }
}
/// The four syntactic positions a string can take.
fn program(lit: &str) -> String {
    format!("local a = {l}\nf {l}\nlocal t = {{ [ {l} ] = 1 }}\nt[ {l} ] = 2\n", l = lit)
}

pub struct Stats {
    pub tried: u64,
    pub lexed: u64,
    pub records: u64,
}

fn run_literal(out: &mut dyn std::io::Write, st: &mut Stats, syn: &str, form: &str, depth: usize, body: &str, styles: &[&str]) {
    st.tried += 1;
    let lit = literal_text(form, depth, body);
    let src = program(&lit);
    let v = syntax(syn);
    // the literal must be read by the tokenizer as exactly this one string token, four times
    let toks = match lex(&src, v) {
        Some(t) => t,
        None => return,
    };
    let strs: Vec<_> = toks
        .iter()
        .filter_map(|t| match t.token_type() {
            TokenType::StringLiteral { literal, multi_line_depth, quote_type } => {
                Some((quote_letter(quote_type), *multi_line_depth, literal.to_string()))
            }
            _ => None,
        })
        .collect();
    if strs.len() != 4 || strs.iter().any(|(q, d, l)| *q != form || *d != depth || l != body) {
        return;
    }
    if !parses(&src, v) {
        return;
    }
    st.lexed += 1;
    for style in styles {
        for ending in ["Unix", "Windows"] {
            let cfg = config(&[&format!("syntax={}", syn), &format!("quote_style={}", style), &format!("line_endings={}", ending)]);
            st.records += 1;
            let head = format!("S {} {} {} {} {} {}", syn, style, ending, form, depth, hex(body.as_bytes()));
            match format_guarded(&src, cfg, None) {
                Outcome::Ok(o) => {
                    let reparse = parses(&o, v);
                    let mut line = format!("{} {}", head, if reparse { "ok" } else { "noparse" });
                    if let Some(ot) = lex(&o, v) {
                        for t in ot {
                            if let TokenType::StringLiteral { literal, multi_line_depth, quote_type } = t.token_type() {
                                line.push_str(&format!(" {} {} {}", quote_letter(quote_type), multi_line_depth, hex(literal.as_bytes())));
                            }
                        }
                    } else {
                        line.push_str(" nolex");
                    }
                    writeln!(out, "{}", line).unwrap();
                }
                Outcome::ParseError => writeln!(out, "{} parseerror", head).unwrap(),
                Outcome::OtherError(e) => writeln!(out, "{} error {}", head, hex(e.as_bytes())).unwrap(),
                Outcome::Panic(e) => writeln!(out, "{} panic {}", head, hex(e.as_bytes())).unwrap(),
            }
        }
    }
}

const NUMBERS: &[&str] = &[
    "0", "1", "007", "3.0", "3.", ".5", ".5e3", ".0", "0.5", "3.1416", "314.16e-2", "0.31416E1", "34e1", "1e+9", "1E-9", ".5E+10", "0x0.1E",
    "0xA23p-4", "0X1.921FB54442D18P+1", "0xff", "0XFF", "0x.8", "0x.8p1", "1e5", "5e-324", "9007199254740993", "0x7fffffffffffffff",
    "0xffffffffffffffff", "1_000", "0x_ff", "0b1010", "0B11", "0b_1", "1_0.5_0", ".5_0", "12ULL", "12LL", "0x1Full", "1i", "2.5i", ".5i", "0xAi",
    "100000000000000000000", "1e400", ".1e1", "0.e1", "00.5", "0e0", ".5e0",
];

pub fn main(args: &[String]) {
    silence_panics();
    let mut k_full = 3usize;
    let mut k_core = 5usize;
    let mut k_br = 4usize;
    let mut shard = 0usize;
    let mut shards = 1usize;
    let mut syns: Vec<&str> = vec!["Lua51", "Lua54", "Luau"];
    let mut one: Option<(String, String, usize, String)> = None;
    let mut random = 0usize;
    let mut seed = 0u64;
    let mut i = 0;
    while i < args.len() {
        match args[i].as_str() {
            "--k-full" => { k_full = args[i + 1].parse().unwrap(); i += 1 }
            "--k-core" => { k_core = args[i + 1].parse().unwrap(); i += 1 }
            "--k-bracket" => { k_br = args[i + 1].parse().unwrap(); i += 1 }
            "--shard" => { let (a, b) = args[i + 1].split_once('/').unwrap(); shard = a.parse().unwrap(); shards = b.parse().unwrap(); i += 1 }
            "--all-syntaxes" => syns = SYNTAXES.to_vec(),
            "--random" => { random = args[i + 1].parse().unwrap(); i += 1 }
            "--seed" => { seed = args[i + 1].parse().unwrap(); i += 1 }
            "--one" => { one = Some((args[i + 1].clone(), args[i + 2].clone(), args[i + 3].parse().unwrap(), args[i + 4].clone())); i += 4 }
            _ => panic!("c04: unknown argument {}", args[i]),
        }
        i += 1;
    }
    let stdout = std::io::stdout();
    let mut out = std::io::BufWriter::new(stdout.lock());
    let mut st = Stats { tried: 0, lexed: 0, records: 0 };
    if let Some((syn, form, depth, bodyhex)) = one {
        let body = String::from_utf8(unhex(&bodyhex)).unwrap();
        if form == "n" {
            number(&mut out, &mut st, &syn, &body);
        } else {
            run_literal(&mut out, &mut st, &syn, &form, depth, &body, &QUOTE_STYLES);
        }
        return;
    }
    let mut n = 0usize;
    for syn in &syns {
        for (alpha, k, min) in [(FULL, k_full, 0usize), (CORE, k_core, k_full + 1)] {
            for form in ["s", "d"] {
                enumerate(alpha, k, &mut |w| {
                    if w.chars().count() < min {
                        return;
                    }
                    n += 1;
                    if n % shards == shard {
                        run_literal(&mut out, &mut st, syn, form, 0, w, &QUOTE_STYLES);
                    }
                });
            }
        }
        for depth in [0usize, 1, 2] {
            enumerate(BRACKET, k_br, &mut |w| {
                n += 1;
                if n % shards == shard {
                    run_literal(&mut out, &mut st, syn, "b", depth, w, &["AutoPreferDouble", "ForceSingle"]);
                }
            });
        }
        for num in NUMBERS {
            n += 1;
            if n % shards == shard {
                number(&mut out, &mut st, syn, num);
            }
        }
    }
    // seeded supplement: longer bodies than the exhaustive bound reaches
    let mut rng = Rng(seed ^ 0xC04);
    for r in 0..random {
        let syn = *rng.pick(&syns);
        let form = *rng.pick(&["s", "d", "s", "d", "b"]);
        let alpha = if form == "b" { BRACKET } else { FULL };
        let len = 5 + rng.below(20);
        let body: String = (0..len).map(|_| *rng.pick(alpha)).collect();
        let depth = if form == "b" { rng.below(3) } else { 0 };
        if r % shards == shard {
            run_literal(&mut out, &mut st, syn, form, depth, &body, &QUOTE_STYLES);
        }
    }
    use std::io::Write;
    writeln!(out, "STATS tried={} lexed={} records={}", st.tried, st.lexed, st.records).unwrap();
}

fn number(out: &mut dyn std::io::Write, st: &mut Stats, syn: &str, num: &str) {
    st.tried += 1;
    let v = syntax(syn);
    let src = format!("local a = {n}\nf({n}, -{n})\nlocal t = {{ [{n}] = {n} }}\n", n = num);
    let toks = match lex(&src, v) { Some(t) => t, None => return };
    let nums: Vec<String> = toks.iter().filter_map(|t| match t.token_type() { TokenType::Number { text } => Some(text.to_string()), _ => None }).collect();
    if nums.len() != 5 || nums.iter().any(|x| x != num) || !parses(&src, v) {
        return;
    }
    st.lexed += 1;
    st.records += 1;
    let cfg = config(&[&format!("syntax={}", syn)]);
    let head = format!("N {} {}", syn, hex(num.as_bytes()));
    match format_guarded(&src, cfg, None) {
        Outcome::Ok(o) => {
            let mut line = format!("{} {}", head, if parses(&o, v) { "ok" } else { "noparse" });
            if let Some(ot) = lex(&o, v) {
                for t in ot {
                    if let TokenType::Number { text } = t.token_type() {
                        line.push_str(&format!(" {}", hex(text.as_bytes())));
                    }
                }
            } else {
                line.push_str(" nolex");
            }
            writeln!(out, "{}", line).unwrap();
        }
        Outcome::ParseError => writeln!(out, "{} parseerror", head).unwrap(),
        Outcome::OtherError(e) => writeln!(out, "{} error {}", head, hex(e.as_bytes())).unwrap(),
        Outcome::Panic(e) => writeln!(out, "{} panic {}", head, hex(e.as_bytes())).unwrap(),
    }
}
