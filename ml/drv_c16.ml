(* C16 judge: the selection glue extracted from Coq (Select.processed) on the walker's entries (an oracle: computed by
   the runner from the tree with an independent matcher for the pattern class it generates), against the set of
   files the binary actually processed.
   Records: SCN id usedefaultglob respect | ENTRY <spelling> <key> <explicit> <glob_ok> <ignored> | OBS <key> (a processed file) | ALL <key> (every file of the tree) | END *)
open Util
let scn = ref "" and udg = ref true and resp = ref false and entries = ref [] and obs = ref [] and allf = ref []
let times = ref []
let scenarios = ref 0 and bad = ref 0 and nontrivial = ref 0 and nfiles = ref 0 and nproc = ref 0 and dup = ref 0 and samples = ref 0
let report k = incr bad; Printf.printf "BAD %s %s\n" k !scn
let finish () =
  incr scenarios;
  let es = L.rev !entries in
  let tbl = Hashtbl.create 16 in
  L.iter (fun (sp, key, ex, g, ig) -> Hashtbl.replace tbl sp (key, ex, g, ig)) es;
  let get sp = Hashtbl.find tbl sp in
  let processed = Select.processed (fun (a : string) b -> a = b)
      (fun sp -> let (k, _, _, _) = get sp in k) (fun _ -> true)
      (fun sp -> let (_, e, _, _) = get sp in e) (fun sp -> let (_, _, g, _) = get sp in g) (fun sp -> let (_, _, _, i) = get sp in i)
      !udg !resp (L.map (fun (sp, _, _, _, _) -> sp) es) in
  let keys = L.sort_uniq compare (L.map (fun sp -> let (k, _, _, _) = get sp in k) processed) in
  if L.length keys <> L.length processed then report "model-processed-twice";
  let observed = L.sort_uniq compare !obs in
  nfiles := !nfiles + L.length !allf; nproc := !nproc + L.length observed;
  if L.length es > L.length (L.sort_uniq compare (L.map (fun (_, k, _, _, _) -> k) es)) then incr dup;
  if observed <> [] && L.length observed < L.length !allf then incr nontrivial;
  L.iter (fun k -> if not (L.mem k observed) then report ("selected-but-not-processed:" ^ k)) keys;
  if L.sort_uniq compare !times <> observed then report "check-mode-and-write-mode-select-different-files";
  L.iter (fun k -> if not (L.mem k keys) then report ("processed-but-not-selected:" ^ k)) observed;
  if !samples < 5 && !scenarios mod 29 = 1 then (incr samples;
    Printf.printf "SAMPLE %s entries=[%s] processed=[%s] of %d files\n" !scn (SS.concat "," (L.map (fun (sp, _, _, _, _) -> sp) es)) (SS.concat "," observed) (L.length !allf))
let handle line = match words line with
  | ["SCN"; id; u; r] -> scn := id; udg := (u = "1"); resp := (r = "1"); entries := []; obs := []; allf := []; times := []
  | ["ENTRY"; sp; key; ex; g; ig] -> entries := (sp, key, ex = "1", g = "1", ig = "1") :: !entries
  | ["OBS"; k] -> obs := k :: !obs
  | ["TIMES"; k; c] -> if int_of_string c <> 1 then report (Printf.sprintf "processed-%s-times:%s" c k) else times := k :: !times
  | ["ALL"; k] -> allf := k :: !allf
  | ["END"] -> finish ()
  | [] -> ()
  | _ -> incr bad; Printf.printf "BAD unreadable-record %s\n" line
let () =
  iter_lines handle;
  Printf.printf "SUMMARY scenarios=%d nontrivial=%d files=%d processed=%d with_duplicate_spellings=%d bad=%d\n" !scenarios !nontrivial !nfiles !nproc !dup !bad
