(* C10 - output whitespace obeys line_endings and indent settings.  Statements only.
   Partial: proved for what the comment gate emits; the whole output is validated by the discipline Census.ws_check
   (every newline in the configured form, no other CR, indentation of the configured kind, one final line ending). *)
From Coq Require Import List.
From SV Require Lex Bracket BracketProof Census Trivia TriviaProof.
Import ListNotations.
Theorem C10_block_comment_newlines_converted : forall win d b, Bracket.no_lone_cr b = true ->
  match Trivia.fmt_comment win (Lex.TBlockCom d b) with Lex.TBlockCom _ b' => Census.newlines_ok win b' = true | _ => False end.
Proof. exact TriviaProof.fmt_comment_newlines. Qed.
Print Assumptions C10_block_comment_newlines_converted.
Theorem C10_conversion_emits_only_the_configured_ending : forall win t, Bracket.no_cr t = true ->
  Census.newlines_ok win (Bracket.lf_to (Trivia.ending_of win) t) = true.
Proof. exact TriviaProof.lf_to_newlines_ok. Qed.
Print Assumptions C10_conversion_emits_only_the_configured_ending.
Theorem C10_conversion_idempotent : forall e s, Bracket.no_lone_cr s = true -> Bracket.conv e (Bracket.conv e s) = Bracket.conv e s.
Proof. exact BracketProof.conv_idem. Qed.
Print Assumptions C10_conversion_idempotent.
Theorem C10_line_comments_lose_trailing_blanks : forall s, Census.trim_end (Census.trim_end s) = Census.trim_end s.
Proof. exact TriviaProof.trim_end_idem. Qed.
Print Assumptions C10_line_comments_lose_trailing_blanks.

(* the two creators every line break and every indentation of the output comes from, regenerated from
   src/context.rs on every run: the configured ending and nothing else; tabs only, or spaces in a multiple of indent_width *)
From SV Require FmAst CtxOptionsProof.
From SVgen Require CtxOptions.
Theorem C10_created_line_ending_is_the_configured_one : forall l win,
  Census.newlines_ok win (CtxOptions.line_ending_character l) = Bool.eqb win (CtxOptionsProof.is_windows l).
Proof. exact CtxOptionsProof.line_ending_obeys_discipline. Qed.
Print Assumptions C10_created_line_ending_is_the_configured_one.
Theorem C10_created_indentation_obeys_the_setting : forall ty w n win eof,
  Census.indent_ok {| Census.windows := win; Census.spaces := CtxOptionsProof.is_spaces ty; Census.width := w; Census.eof_formatted := eof |}
    (CtxOptionsProof.ws_text (CtxOptions.create_plain_indent_trivia ty w n)) = true.
Proof. exact CtxOptionsProof.indentation_obeys_discipline. Qed.
Print Assumptions C10_created_indentation_obeys_the_setting.

(* L0 - the whole-formatter model on a fragment of Lua 5.1 (Fmt0.v), tied to the binary byte for byte on every run:
   the tokens it prints pass the newline and indentation discipline for every program and every configuration
   (the end-of-file clause is validated by the tie only) *)
From SV Require Fmt0 Fmt0Proof.
Theorem C10_L0_output_obeys_the_discipline : forall c p eof, Fmt0Proof.wf_blk p ->
  Census.ws_scan (Fmt0Proof.wcfg c eof) true false (Fmt0.pprog c p) = None.
Proof. exact Fmt0Proof.format0_whitespace_discipline. Qed.
Print Assumptions C10_L0_output_obeys_the_discipline.
(* ... in particular what format0 prints for a program whose assignments have a target and whose comments hold no carriage return *)
Theorem C10_L0_formatted_output_obeys_the_discipline : forall c p eof, Fmt0Proof.wf_blk p ->
  Census.ws_scan (Fmt0Proof.wcfg c eof) true false (Fmt0.pprog c (Fmt0.norm0 c p)) = None.
Proof. exact Fmt0Proof.format0_output_obeys_the_discipline. Qed.
Print Assumptions C10_L0_formatted_output_obeys_the_discipline.
