(* A property of single tokens that holds of keywords / symbols, blanks, names, numbers, line comments and of every string
   token written by [pstr] holds of every token format0 prints.  Instance (C11): every quoted string of the output carries the
   quote that quote_style asks for, judged on the output alone. *)
From Coq Require Import List Ascii String Bool.
Import ListNotations.
From SV Require Import Lex LexRender Expr Quote QuoteMore Number CallForm Fmt0 Fmt0Proof.

Section TokAll.
Variable c : cfg0.
Variable P : Lex.tok -> Prop.
Hypothesis Hsym : forall s, P (TSym s).
Hypothesis Hws : forall w, P (TWs w).
Hypothesis Hid : forall n, P (TIdent n).
Hypothesis Hnum : forall s, P (TNum s).
Hypothesis Hcom : forall x, P (TLineCom x).
Hypothesis Hstr : forall s, P (pstr (style0 c) s).
Hypothesis Hbrk : forall n b, P (TStr QBrackets n b).
Notation pexp := (Fmt0.pexp c).
Ltac fa := repeat first [ apply Forall_nil | apply Forall_cons; [first [apply Hsym | apply Hws | apply Hid | apply Hnum | apply Hcom | apply Hstr | apply Hbrk]|] | apply Forall_app; split ].
Lemma all_commas l : Forall (Forall P) l -> Forall P (commas l).
Proof.
  induction 1 as [|x r Hx Hr IH]; [constructor|]. destruct r as [|y r']; [cbn [commas]; exact Hx|].
  change (commas (x :: y :: r')) with (x ++ kw "," :: sp :: commas (y :: r')). fa; [exact Hx|exact IH].
Qed.
Lemma all_map_pexp d l : Forall (fun e => forall d0, Forall P (pexp d0 e)) l -> Forall (Forall P) (map (pexp d) l).
Proof. induction 1 as [|x r Hx Hr IH]; cbn [map]; constructor; [apply Hx|exact IH]. Qed.
Lemma all_indent d : Forall P (indent c d). Proof. destruct d; cbn [indent]; fa. Qed.
Lemma all_eol : P (eol c). Proof. apply Hws. Qed.
Lemma all_pargs sg xs : Forall P xs -> Forall P (pargs c sg xs).
Proof. intros H. unfold pargs, gap_call, gap_sugar. destruct sg; [constructor; [apply Hws|exact H]|]. destruct (space_call (space0 c)); fa; exact H. Qed.
Lemma all_tline d x : (forall d0, Forall P (pexp d0 x)) -> Forall P (tline c d x).
Proof.
  intros H. destruct x; try (apply Forall_app; split; [apply all_indent|apply Forall_app; split; [apply H|fa]]).
  - (* field line *) cbn [tline]. pose proof (H (S d)) as Hf. cbn [Fmt0.pexp] in Hf. destruct b; destruct t; cbn [app]; fa; try apply all_indent; try exact Hf.
  - (* comment line *) cbn [tline]. destruct b; cbn [app]; fa; apply all_indent.
Qed.
Lemma all_brk b xs : Forall P xs -> Forall P (brk b xs).
Proof. intros H. unfold brk. destruct b; fa; exact H. Qed.
Theorem all_pexp : forall e d, Forall P (pexp d e).
Proof.
  induction e using exp_ind'; intros d; try (cbn [Fmt0.pexp]; fa; fail).
  - cbn [Fmt0.pexp]. fa. apply IHe.
  - cbn [Fmt0.pexp]. apply Forall_app; split; [apply IHe1|apply all_brk; apply IHe2].
  - cbn [Fmt0.pexp]. fa; [apply IHe|]. apply all_pargs. apply all_commas. apply all_map_pexp. exact H.
  - cbn [Fmt0.pexp]. fa; [apply IHe|]. apply all_pargs. apply all_commas. apply all_map_pexp. exact H.
  - cbn [Fmt0.pexp]. fa; [destruct u; cbn [uop_toks]; fa|apply IHe].
  - cbn [Fmt0.pexp]. fa; [apply IHe1|apply IHe2].
  - cbn [Fmt0.pexp]. fa. apply IHe.
  - destruct fs as [|f fs]; [cbn [Fmt0.pexp]; fa|].
    change (pexp d (ETable (f :: fs))) with (kw "{" :: sp :: commas (map (pexp d) (f :: fs)) ++ [sp; kw "}"]). fa. apply all_commas. apply all_map_pexp. exact H.
  - cbn [Fmt0.pexp]. apply IHe.
  - cbn [Fmt0.pexp]. fa. apply IHe.
  - cbn [Fmt0.pexp]. apply Forall_app; split; [apply all_brk; apply IHe1|]. fa. apply IHe2.
  - destruct fs as [|f fs]; [cbn [Fmt0.pexp]; fa|]. rewrite p_tableml. apply Forall_cons; [apply Hsym|]. apply Forall_cons; [apply Hws|]. apply Forall_app; split; [|apply Forall_app; split; [apply all_indent|fa]].
    unfold tlines. induction H as [|x r Hx Hr IH]; [constructor|]. cbn [map List.concat]. apply Forall_app. split; [apply all_tline; exact Hx|exact IH].
  - cbn [Fmt0.pexp]. apply IHe.
Qed.
Lemma all_pexps d es : Forall P (pexps c d es).
Proof. unfold pexps. apply all_commas. apply all_map_pexp. apply Forall_forall. intros e _ d0. apply all_pexp. Qed.
Lemma all_pnames ns : Forall P (pnames ns).
Proof. unfold pnames. apply all_commas. apply Forall_map. apply Forall_forall. intros n _. fa. Qed.
Lemma all_pparams ps va : Forall P (pparams c ps va).
Proof.
  assert (L : Forall P (kw "(" :: commas (map (fun n => [TIdent n]) ps ++ (if va then [[kw "..."]] else [])) ++ [kw ")"])).
  { apply Forall_cons; [apply Hsym|]. apply Forall_app; split; [|fa]. apply all_commas. apply Forall_app; split.
    - apply Forall_map. apply Forall_forall. intros n _. fa.
    - destruct va; [constructor; [fa|constructor]|constructor]. }
  unfold pparams. destruct (space_definition (space0 c)); cbn [app]; [apply Forall_cons; [apply Hws|exact L]|exact L].
Qed.
Lemma all_dotted p : Forall P (dotted p).
Proof. induction p as [|n r IH]; [constructor|]. destruct r as [|m r']; [cbn [dotted]; fa|]. change (dotted (n :: m :: r')) with (TIdent n :: kw "." :: dotted (m :: r')). fa. exact IH. Qed.
Lemma all_ptrivia d tv : Forall P (ptrivia c d tv).
Proof. unfold ptrivia. induction tv as [|[b x] r IH]; [constructor|]. cbn [map List.concat fst snd]. destruct b; cbn [app]; fa; try apply all_indent; exact IH. Qed.
Lemma all_ptrail t : Forall P (ptrail t). Proof. destruct t; cbn [ptrail]; fa. Qed.
Lemma all_psimple d s : Forall P (psimple c d s).
Proof.
  destruct s; cbn [psimple]; try constructor.
  - destruct es as [|e es].
    + do 2 (apply Forall_cons; [first [apply Hsym|apply Hws]|]). apply all_pnames.
    + do 2 (apply Forall_cons; [first [apply Hsym|apply Hws]|]). apply Forall_app; split; [apply all_pnames|]. do 3 (apply Forall_cons; [first [apply Hsym|apply Hws]|]). apply all_pexps.
  - apply Forall_app; split; [apply all_pexps|]. do 3 (apply Forall_cons; [first [apply Hsym|apply Hws]|]). apply all_pexps.
  - apply all_pexp.
  - destruct es as [|e es]; [fa|]. do 2 (apply Forall_cons; [first [apply Hsym|apply Hws]|]). apply all_pexps.
  - apply Hsym.
  - constructor.
Qed.
Definition Ps (s : stmt) : Prop := forall d, Forall P (pstmt c d s).
Definition Qs (r : els) : Prop := forall d, Forall P (pels c d r).
Definition Is (i : item) : Prop := forall d, Forall P (pitem c d i).
Definition Bs (b : blk) : Prop := forall d, Forall P (pblk c d b).
Lemma all_block_end d b : Bs b -> Forall P (pblk c (S d) b ++ indent c d ++ [kw "end"]).
Proof. intros H. apply Forall_app; split; [apply H|]. apply Forall_app; split; [apply all_indent|fa]. Qed.
Lemma all_fbody d b : Bs b -> Forall P (fbody c d b).
Proof.
  intros H. unfold fbody. destruct (blk_empty b); [fa|]. destruct (fun_guard c b) as [s1|]; [|apply Forall_cons; [apply Hws|apply all_block_end; exact H]].
  destruct (oneline (psimple c d s1) && nocom (psimple c d s1)); [|apply Forall_cons; [apply Hws|apply all_block_end; exact H]].
  apply Forall_cons; [apply Hws|]. apply Forall_app; split; [apply all_psimple|fa].
Qed.
Theorem all_prog : (forall s, Ps s) /\ (forall b, Bs b).
Proof.
  assert (Hitem : forall l bl s t, Ps s -> Is (Item l bl s t)).
  { intros l bl s t H d. rewrite p_item. apply Forall_app; split; [apply all_ptrivia|]. apply Forall_app; split; [destruct bl; fa|].
    apply Forall_app; split; [apply all_indent|]. apply Forall_app; split; [apply H|]. apply Forall_app; split; [apply all_ptrail|fa]. }
  assert (Hblk : forall is tl, Forall Is is -> Bs (Blk is tl)).
  { intros is tl H d. rewrite p_blk. apply Forall_app; split; [|apply all_ptrivia]. induction H as [|i r Hi Hr IH]; [constructor|]. cbn [map List.concat]. apply Forall_app; split; [apply Hi|exact IH]. }
  assert (H : forall s, Ps s).
  - apply (stmt_ind' Ps Qs Is Bs); unfold Ps, Qs, Bs; intros; try (apply Hitem; assumption); try (apply Hblk; assumption); try (apply (all_psimple d)).
    + rewrite p_do. do 2 (apply Forall_cons; [first [apply Hsym|apply Hws]|]). apply all_block_end. assumption.
    + rewrite p_while. do 2 (apply Forall_cons; [first [apply Hsym|apply Hws]|]). apply Forall_app; split; [apply all_pexp|]. do 3 (apply Forall_cons; [first [apply Hsym|apply Hws]|]). apply all_block_end. assumption.
    + rewrite p_repeat. do 2 (apply Forall_cons; [first [apply Hsym|apply Hws]|]). apply Forall_app; split; [apply H|]. apply Forall_app; split; [apply all_indent|]. do 2 (apply Forall_cons; [first [apply Hsym|apply Hws]|]). apply all_pexp.
    + rewrite p_if. assert (L : Forall P (kw "if" :: sp :: pexp d e ++ sp :: kw "then" :: eol c :: pblk c (S d) t ++ pels c d r ++ indent c d ++ [kw "end"])).
      { do 2 (apply Forall_cons; [first [apply Hsym|apply Hws]|]). apply Forall_app; split; [apply all_pexp|]. do 3 (apply Forall_cons; [first [apply Hsym|apply Hws]|]).
        apply Forall_app; split; [apply H|]. apply Forall_app; split; [apply H0|]. apply Forall_app; split; [apply all_indent|fa]. }
      destruct (if_guard c t r) as [s1|]; [|exact L]. destruct (nocom (psimple c d s1)); [|exact L].
      do 2 (apply Forall_cons; [first [apply Hsym|apply Hws]|]). apply Forall_app; split; [apply all_pexp|]. do 3 (apply Forall_cons; [first [apply Hsym|apply Hws]|]). apply Forall_app; split; [apply all_psimple|fa].
    + rewrite p_numfor. do 6 (apply Forall_cons; [first [apply Hsym|apply Hws|apply Hid]|]). apply Forall_app; split; [apply all_pexp|]. do 2 (apply Forall_cons; [first [apply Hsym|apply Hws]|]).
      apply Forall_app; split; [apply all_pexp|]. apply Forall_app; split; [destruct st; fa; apply all_pexp|]. do 3 (apply Forall_cons; [first [apply Hsym|apply Hws]|]). apply all_block_end. assumption.
    + rewrite p_genfor. do 2 (apply Forall_cons; [first [apply Hsym|apply Hws]|]). apply Forall_app; split; [apply all_pnames|]. do 3 (apply Forall_cons; [first [apply Hsym|apply Hws]|]).
      apply Forall_app; split; [apply all_pexps|]. do 3 (apply Forall_cons; [first [apply Hsym|apply Hws]|]). apply all_block_end. assumption.
    + rewrite p_function. do 2 (apply Forall_cons; [first [apply Hsym|apply Hws]|]). apply Forall_app; split; [apply all_dotted|]. apply Forall_app; split; [destruct m; fa|]. apply Forall_app; split; [apply all_pparams|apply all_fbody; assumption].
    + rewrite p_localfunction. do 5 (apply Forall_cons; [first [apply Hsym|apply Hws|apply Hid]|]). apply Forall_app; split; [apply all_pparams|apply all_fbody; assumption].
    + constructor.
    + rewrite p_else. apply Forall_app; split; [apply all_indent|]. do 2 (apply Forall_cons; [first [apply Hsym|apply Hws]|]). apply H.
    + rewrite p_elseif. apply Forall_app; split; [apply all_indent|]. do 2 (apply Forall_cons; [first [apply Hsym|apply Hws]|]). apply Forall_app; split; [apply all_pexp|]. do 3 (apply Forall_cons; [first [apply Hsym|apply Hws]|]). apply Forall_app; split; [apply H|apply H0].
  - split; [exact H|]. intros [is tl]. apply Hblk. apply Forall_forall. intros [l bl s t] _. apply Hitem. apply H.
Qed.
Theorem all_pprog p : Forall P (pprog c p).
Proof. unfold pprog. apply (proj2 all_prog). Qed.
End TokAll.

(* ---------- C11, quote_style on L0: every quoted string of the output carries the quote the option asks for ---------- *)
Lemma quote_ok_pstr st s : quote_ok st (pstr st s) = true.
Proof. unfold pstr, quote_ok. destruct (QuoteMore.choose st s) eqn:E; cbn [qkind_of]; rewrite QuoteMore.choose_stable, E; reflexivity. Qed.
Theorem format0_strings_obey_quote_style c p : forallb (quote_ok (style0 c)) (pprog c (norm0 c p)) = true.
Proof.
  apply forallb_forall. apply Forall_forall. apply (all_pprog c (fun t => quote_ok (style0 c) t = true)); try reflexivity. intros s. apply quote_ok_pstr.
Qed.
(* the judge rejects a string in the wrong quotes, and accepts the other quote when it saves escapes *)
Example quote_judge_rejects :
  quote_ok QuoteMore.ForceDouble (TStr QSingle 0 (str "a")) = false /\ quote_ok QuoteMore.AutoDouble (TStr QSingle 0 (str "a")) = false /\
  quote_ok QuoteMore.AutoDouble (TStr QSingle 0 (str "say ""hi""")) = true /\ quote_ok QuoteMore.AutoDouble (TStr QDouble 0 (str "say \""hi\""")) = false /\
  quote_ok QuoteMore.AutoSingle (TStr QDouble 0 (str "a")) = false.
Proof. repeat split; vm_compute; reflexivity. Qed.
