From Coq Require Import List Bool Arith Lia Permutation Sorted.
Import ListNotations.

(* C12 core at the level of the top-level statement list.
   An item is either a require-like local (with its group kind, sort key, line span, and whether it is being
   formatted) or any other statement.  [lead] is the leading trivia, which stays with the slot, not the statement. *)
Section Sort.
Variable key : Type.
Variable leb : key -> key -> bool.               (* byte-wise name order *)
Hypothesis leb_total : forall a b, leb a b = true \/ leb b a = true.
Hypothesis leb_trans : forall a b c, leb a b = true -> leb b c = true -> leb a c = true.
Variable body lead : Type.

Record req := { kind : bool; name : key; l0 : nat; l1 : nat; normal : bool; rbody : body; rlead : lead }.
Inductive item := Req (r : req) | Other (b : body) (l : lead).

(* stable insertion sort on the key *)
Fixpoint insert (x : req) (l : list req) : list req :=
  match l with [] => [x] | y :: r => if leb (name x) (name y) then x :: l else y :: insert x r end.
Fixpoint isort (l : list req) : list req := match l with [] => [] | x :: r => insert x (isort r) end.

Lemma insert_perm x l : Permutation (x :: l) (insert x l).
Proof. induction l as [|y r IH]; cbn; auto. destruct (leb (name x) (name y)); auto.
  eapply perm_trans; [apply perm_swap|]. constructor. exact IH. Qed.
Lemma isort_perm l : Permutation l (isort l).
Proof. induction l as [|x r IH]; cbn; auto. eapply perm_trans; [|apply insert_perm]. constructor. exact IH. Qed.

Definition le_req (a b : req) : Prop := leb (name a) (name b) = true.
Lemma insert_hd x y r : leb (name y) (name x) = true -> HdRel le_req y r -> HdRel le_req y (insert x r).
Proof. intros A H. destruct r as [|z r']; cbn; [constructor; exact A|].
  destruct (leb (name x) (name z)); constructor; [exact A|inversion H; auto]. Qed.
Lemma insert_sorted x l : Sorted le_req l -> Sorted le_req (insert x l).
Proof.
  induction l as [|y r IH]; cbn; intros H.
  - repeat constructor.
  - destruct (leb (name x) (name y)) eqn:E.
    + constructor; [exact H | constructor; exact E].
    + inversion H as [|? ? Hs Hh]; subst. constructor; [apply IH; exact Hs|].
      apply insert_hd; [|exact Hh]. destruct (leb_total (name x) (name y)) as [A|A]; [congruence|exact A].
Qed.
Lemma isort_sorted l : Sorted le_req (isort l).
Proof. induction l; cbn; [constructor|apply insert_sorted; auto]. Qed.

(* the leading trivia of the group stays on its first slot *)
Definition set_lead (r : req) (l : lead) : req :=
  {| kind := kind r; name := name r; l0 := l0 r; l1 := l1 r; normal := normal r; rbody := rbody r; rlead := l |}.
Definition sort_group (g : list req) : list req :=
  if forallb normal g then
    match g with
    | [] => []
    | first :: _ => match isort g with
                    | [] => []
                    | s :: rest => set_lead s (rlead first) :: rest   (* simplification: other members keep their own *)
                    end
    end
  else g.

(* grouping: maximal runs of requires of one kind whose line gap is at most 1 *)
Fixpoint groups (cur : list req) (l : list item) : list (list req + item) :=
  match l with
  | [] => match cur with [] => [] | _ => [inl (rev cur)] end
  | Other b ld :: r => (match cur with [] => [] | _ => [inl (rev cur)] end) ++ inr (Other b ld) :: groups [] r
  | Req q :: r =>
      match cur with
      | [] => groups [q] r
      | p :: _ => if Bool.eqb (kind p) (kind q) && (l0 q - l1 p <=? 1) then groups (q :: cur) r
                  else inl (rev cur) :: groups [q] r
      end
  end.
Definition flatten (gs : list (list req + item)) : list item :=
  flat_map (fun g => match g with inl rs => map Req rs | inr i => [i] end) gs.
Definition sort_requires (l : list item) : list item :=
  flatten (map (fun g => match g with inl rs => inl (sort_group rs) | inr i => inr i end) (groups [] l)).

Definition body_of (i : item) : body := match i with Req r => rbody r | Other b _ => b end.

Lemma flatten_app a b : flatten (a ++ b) = flatten a ++ flatten b.
Proof. unfold flatten. apply flat_map_app. Qed.
Lemma flatten_groups : forall l cur, flatten (groups cur l) = map Req (rev cur) ++ l.
Proof.
  induction l as [|i r IH]; intros cur; cbn [groups].
  - destruct cur; cbn; rewrite ?app_nil_r; auto.
  - destruct i as [q|b ld].
    + destruct cur as [|p cur'].
      * rewrite IH. reflexivity.
      * destruct (Bool.eqb (kind p) (kind q) && (l0 q - l1 p <=? 1)).
        -- rewrite IH. cbn [rev]. rewrite map_app. cbn [map app]. rewrite <- app_assoc. reflexivity.
        -- change (inl (rev (p :: cur')) :: groups [q] r) with ([inl (rev (p :: cur'))] ++ groups [q] r).
           rewrite flatten_app, IH. cbn. rewrite app_nil_r. reflexivity.
    + destruct cur as [|p cur'].
      * cbn [app]. change (inr (Other b ld) :: groups [] r) with ([inr (Other b ld)] ++ groups [] r).
        rewrite flatten_app, IH. reflexivity.
      * change ([inl (rev (p :: cur'))] ++ inr (Other b ld) :: groups [] r)
          with ([inl (rev (p :: cur'))] ++ [inr (Other b ld)] ++ groups [] r).
        rewrite !flatten_app, IH. cbn. rewrite app_nil_r. reflexivity.
Qed.

Lemma sort_group_bodies g : Permutation (map rbody g) (map rbody (sort_group g)).
Proof.
  unfold sort_group. destruct (forallb normal g); auto. destruct g as [|f r]; auto.
  pose proof (isort_perm (f :: r)) as P. destruct (isort (f :: r)) as [|s rest] eqn:E.
  - apply Permutation_sym, Permutation_nil in P. discriminate.
  - cbn [map]. change (rbody (set_lead s (rlead f))) with (rbody s).
    change (rbody s :: map rbody rest) with (map rbody (s :: rest)).
    change (rbody f :: map rbody r) with (map rbody (f :: r)). apply Permutation_map. exact P.
Qed.

(* nothing is dropped or duplicated: the statement bodies of the output are a permutation of the input's *)
Theorem sort_perm l : Permutation (map body_of l) (map body_of (sort_requires l)).
Proof.
  unfold sort_requires. rewrite <- (flatten_groups l []) at 1. cbn [rev map app].
  induction (groups [] l) as [|g gs IH]; cbn; auto.
  unfold flatten in *. cbn. rewrite !map_app. apply Permutation_app; auto.
  destruct g as [rs|i]; cbn; auto. rewrite !map_map. cbn. apply sort_group_bodies.
Qed.

(* with the option off nothing moves *)
Theorem off_is_identity l : flatten (groups [] l) = l.
Proof. rewrite flatten_groups. reflexivity. Qed.
End Sort.
Print Assumptions sort_perm.
