(* C11 - quote_style, call_parentheses and space_after_function_names are honoured.  Statements only.
   Partial: the quote rule is proved on the kernel; call form and spacing are validated on the output's AST. *)
From Coq Require Import List.
From SV Require Quote QuoteMore.
Theorem C11_forced_quote_styles : forall s, QuoteMore.choose QuoteMore.ForceDouble s = Quote.QD /\ QuoteMore.choose QuoteMore.ForceSingle s = Quote.QS.
Proof. intros s. split; reflexivity. Qed.
Print Assumptions C11_forced_quote_styles.
Theorem C11_auto_prefers_unless_strictly_fewer_escapes : forall st s, st = QuoteMore.AutoDouble \/ st = QuoteMore.AutoSingle ->
  (QuoteMore.choose st s = QuoteMore.preferred st /\ QuoteMore.needs (QuoteMore.preferred st) s <= QuoteMore.needs (QuoteMore.other (QuoteMore.preferred st)) s) \/
  (QuoteMore.choose st s = QuoteMore.other (QuoteMore.preferred st) /\ QuoteMore.needs (QuoteMore.other (QuoteMore.preferred st)) s < QuoteMore.needs (QuoteMore.preferred st) s).
Proof. exact QuoteMore.choose_minimal. Qed.
Print Assumptions C11_auto_prefers_unless_strictly_fewer_escapes.
(* the rule can be read off the output: the rewriter neither adds nor removes quote characters *)
Theorem C11_rule_observable_on_output : forall q q' s, QuoteMore.needs q' (Quote.rewrite q s) = QuoteMore.needs q' s.
Proof. exact QuoteMore.needs_rewrite. Qed.
Print Assumptions C11_rule_observable_on_output.
