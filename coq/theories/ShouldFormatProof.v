(* gen/ShouldFormat.v (regenerated from src/context.rs on every run) is the specification ShouldFormat.verdict. *)
From Coq Require Import Arith Bool Lia.
From SV Require Import FmAst ShouldFormat.
From SVgen Require Import ShouldFormat.

Theorem generated_is_spec d l r n : SVgen.ShouldFormat.should_format_node d l r n = verdict d l r n.
Proof.
  unfold SVgen.ShouldFormat.should_format_node, verdict, inside.
  destruct d; [reflexivity|]. destruct l as [x|]; [reflexivity|]. destruct r as [r|]; [|reflexivity].
  destruct (start r) as [a|], (start_position n) as [p|], (end_ r) as [b|], (end_position n) as [q|]; cbn [andb];
    repeat match goal with |- context [Nat.ltb ?x ?y] => destruct (Nat.ltb_spec x y) end;
    repeat match goal with |- context [Nat.leb ?x ?y] => destruct (Nat.leb_spec x y) end;
    cbn [andb]; try reflexivity; lia.
Qed.

(* what C09 needs: with formatting enabled and no ignore comment, a node is formatted iff it is wholly inside *)
Theorem formatted_iff_wholly_inside r n :
  SVgen.ShouldFormat.should_format_node false None (Some r) n = FormatNode_Normal <-> inside r n = true.
Proof. rewrite generated_is_spec. unfold verdict. destruct (inside r n); split; intros H; try reflexivity; discriminate. Qed.
Theorem outside_is_not_in_range r n :
  inside r n = false -> SVgen.ShouldFormat.should_format_node false None (Some r) n = FormatNode_NotInRange.
Proof. intros H. rewrite generated_is_spec. unfold verdict. rewrite H. reflexivity. Qed.
(* both bounds are inclusive *)
Theorem bounds_are_inclusive a b :
  SVgen.ShouldFormat.should_format_node false None (Some {| start := Some a; end_ := Some b |})
    {| start_position := Some {| bytes := a |}; end_position := Some {| bytes := b |} |} = FormatNode_Normal.
Proof. apply formatted_iff_wholly_inside. unfold inside. cbn. rewrite !Nat.leb_refl. reflexivity. Qed.
(* what C08 needs: a disabled region or an ignore comment wins over everything *)
Theorem disabled_is_skip l r n : SVgen.ShouldFormat.should_format_node true l r n = FormatNode_Skip.
Proof. rewrite generated_is_spec. reflexivity. Qed.
Theorem ignore_comment_is_skip r n : SVgen.ShouldFormat.should_format_node false (Some FormatNode_Skip) r n = FormatNode_Skip.
Proof. rewrite generated_is_spec. reflexivity. Qed.
Theorem no_range_no_comment_is_normal n : SVgen.ShouldFormat.should_format_node false None None n = FormatNode_Normal.
Proof. rewrite generated_is_spec. reflexivity. Qed.
