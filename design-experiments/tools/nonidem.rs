use stylua_lib::*;
use std::fs;
fn main() {
    let dirs = [("/repo/tests/inputs", LuaVersion::Lua51), ("/repo/tests/inputs-luau", LuaVersion::Luau), ("/repo/tests/inputs-lua52", LuaVersion::Lua52), ("/repo/tests/inputs-lua53", LuaVersion::Lua53), ("/repo/tests/inputs-lua54", LuaVersion::Lua54), ("/repo/tests/inputs-full_moon", LuaVersion::Lua51), ("/repo/tests/inputs-luau-full_moon", LuaVersion::Luau), ("/repo/tests/inputs-ignore", LuaVersion::Lua51)];
    let widths = [1usize, 20, 40, 80, 120, 100000];
    std::panic::set_hook(Box::new(|_| {}));
    let mut n = 0;
    for (d, syn) in dirs.iter() {
        let mut files: Vec<_> = fs::read_dir(d).unwrap().map(|e| e.unwrap().path()).collect();
        files.sort();
        for f in files {
            let src = match fs::read_to_string(&f) { Ok(s) => s, Err(_) => continue };
            for &w in widths.iter() {
                let mut cfg = Config::default(); cfg.syntax = *syn; cfg.column_width = w;
                let out = match format_code(&src, cfg, None, OutputVerification::None) { Ok(o) => o, Err(_) => continue };
                let out2 = match format_code(&out, cfg, None, OutputVerification::None) { Ok(o) => o, Err(_) => { println!("### {} w={} REPARSE-FAIL", f.display(), w); continue } };
                if out2 != out {
                    n += 1;
                    let a: Vec<&str> = out.lines().collect(); let b: Vec<&str> = out2.lines().collect();
                    let mut i = 0; while i < a.len() && i < b.len() && a[i] == b[i] { i += 1; }
                    println!("### {} w={}  first diff at line {}", f.display(), w, i+1);
                    for k in i.saturating_sub(2)..(i+3).min(a.len()) { println!("  1| {}", a[k]); }
                    for k in i.saturating_sub(0)..(i+3).min(b.len()) { println!("  2| {}", b[k]); }
                }
            }
        }
    }
    println!("total nonidem (default cfg) = {}", n);
}
