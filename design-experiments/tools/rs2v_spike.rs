// feasibility spike: translate `check_excess_parentheses` (a match over an enum with guards, if-let, early return,
// recursion) into Gallina.
use quote::ToTokens;
use syn::*;

fn path_name(p: &Path) -> String { p.segments.iter().map(|s| s.ident.to_string()).collect::<Vec<_>>().join("_") }

// field order of the mirrored constructors
fn fields(ctor: &str) -> Vec<&'static str> {
    match ctor {
        "Expression_Parentheses" => vec!["contained", "expression"],
        "Expression_UnaryOperator" => vec!["unop", "expression"],
        "Expression_BinaryOperator" => vec!["lhs", "binop", "rhs"],
        "Expression_TypeAssertion" => vec!["expression", "type_assertion"],
        "TokenType_Symbol" => vec!["symbol"],
        _ => vec![],
    }
}

fn pat(p: &Pat) -> String {
    match p {
        Pat::Wild(_) => "_".into(),
        Pat::Ident(i) => i.ident.to_string(),
        Pat::Path(pp) => path_name(&pp.path),
        Pat::TupleStruct(ts) => format!("({} {})", path_name(&ts.path), ts.elems.iter().map(pat).collect::<Vec<_>>().join(" ")),
        Pat::Struct(s) => {
            let name = path_name(&s.path);
            let mut slots: Vec<String> = fields(&name).iter().map(|_| "_".to_string()).collect();
            for f in &s.fields { if let Member::Named(id) = &f.member { let idx = fields(&name).iter().position(|x| *x == id.to_string()).expect("unknown field"); slots[idx] = pat(&f.pat); } }
            format!("({} {})", name, slots.join(" "))
        }
        Pat::Or(o) => o.cases.iter().map(pat).collect::<Vec<_>>().join(" | "),
        Pat::Reference(r) => pat(&r.pat),
        other => panic!("pattern outside subset: {}", other.to_token_stream()),
    }
}

fn is_match(scrut: &str, p: &str) -> String { format!("(match {} with {} => true | _ => false end)", scrut, p) }

fn expr(e: &Expr) -> String {
    match e {
        Expr::Lit(l) => match &l.lit { Lit::Bool(b) => b.value.to_string(), _ => panic!("literal") },
        Expr::Path(p) => path_name(&p.path),
        Expr::Paren(p) => expr(&p.expr),
        Expr::Reference(r) => expr(&r.expr),
        Expr::Unary(u) => match u.op { UnOp::Not(_) => format!("(negb {})", expr(&u.expr)), UnOp::Deref(_) => expr(&u.expr), _ => panic!("unop") },
        Expr::Call(c) => format!("({} {})", expr(&c.func), c.args.iter().map(expr).collect::<Vec<_>>().join(" ")),
        Expr::MethodCall(m) if m.method == "token_type" => format!("(token_type {})", expr(&m.receiver)),
        Expr::Macro(m) if m.mac.path.is_ident("matches") => {
            let ts = m.mac.tokens.to_string();
            let (scrut, pats) = ts.split_once(',').unwrap();
            let p: Pat = Pat::parse_multi_with_leading_vert.parse_str(pats).unwrap();
            is_match(scrut.trim(), &pat(&p))
        }
        Expr::Match(m) => match_expr(m),
        Expr::Block(b) => block(&b.block.stmts),
        Expr::If(i) => format!("(if {} then {} else {})", cond(&i.cond), block(&i.then_branch.stmts), i.else_branch.as_ref().map(|(_, e)| expr(e)).expect("if without else in value position")),
        other => panic!("expression outside subset: {}", other.to_token_stream()),
    }
}
use syn::parse::Parser;

fn cond(c: &Expr) -> String {
    match c { Expr::Let(l) => is_match(&expr(&l.expr), &pat(&l.pat)), other => expr(other) }
}

// statements with early returns: translate `s; rest` with `rest` as the continuation
fn block(stmts: &[Stmt]) -> String {
    match stmts.split_first() {
        None => panic!("empty block in value position"),
        Some((Stmt::Expr(e, None), [])) => expr(e),
        Some((Stmt::Expr(Expr::Return(r), _), _)) => expr(r.expr.as_ref().unwrap()),
        Some((Stmt::Expr(Expr::If(i), _), rest)) => if_stmt(i, &block(rest)),
        Some((other, _)) => panic!("statement outside subset: {}", other.to_token_stream()),
    }
}
// a block in statement position: either returns, or falls through to `k`
fn stmts_k(stmts: &[Stmt], k: &str) -> String {
    match stmts.split_first() {
        None => k.to_string(),
        Some((Stmt::Expr(Expr::Return(r), _), _)) => expr(r.expr.as_ref().unwrap()),
        Some((Stmt::Expr(Expr::If(i), _), rest)) => if_stmt(i, &stmts_k(rest, k)),
        Some((other, _)) => panic!("statement outside subset: {}", other.to_token_stream()),
    }
}
fn if_stmt(i: &ExprIf, k: &str) -> String {
    let els = match &i.else_branch { None => k.to_string(), Some((_, e)) => match &**e { Expr::If(j) => if_stmt(j, k), Expr::Block(b) => stmts_k(&b.block.stmts, k), _ => panic!("else") } };
    format!("(if {} then {} else {})", cond(&i.cond), stmts_k(&i.then_branch.stmts, k), els)
}

// match with guards: a guarded arm falls through to the remaining arms
fn match_expr(m: &ExprMatch) -> String { arms(&expr(&m.expr), &m.arms) }
fn arms(scrut: &str, arms_: &[Arm]) -> String {
    let mut out = format!("match {} with", scrut);
    for (idx, a) in arms_.iter().enumerate() {
        let body = expr(&a.body);
        match &a.guard {
            None => { out += &format!("\n  | {} => {}", pat(&a.pat), body); if matches!(a.pat, Pat::Wild(_)) { break; } }
            Some((_, g)) => {
                let rest = arms(scrut, &arms_[idx + 1..]);
                out += &format!("\n  | {} => if {} then {} else ({})", pat(&a.pat), expr(g), body, rest);
            }
        }
    }
    out + "\n  end"
}

fn main() {
    let src = std::fs::read_to_string("/repo/src/formatters/expression.rs").unwrap();
    let f = parse_file(&src).unwrap();
    for it in f.items { if let Item::Fn(func) = it { if func.sig.ident == "check_excess_parentheses" {
        println!("Fixpoint check_excess_parentheses (internal_expression : Expression) (context : ExpressionContext) {{struct internal_expression}} : bool :=\n  {}.", block(&func.block.stmts));
    } } }
}
