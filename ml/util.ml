(* the extracted model defines modules List, String, Ascii ...: keep handles on OCaml's own *)
module L = Stdlib.List
module SS = Stdlib.String
module CC = Stdlib.Char
(* helpers shared by the drivers: hex coding of byte strings, field splitting *)
let unhex (s : string) : char list =
  let s = if SS.length s > 0 && (SS.get s (0)) = '#' then SS.sub s 1 (SS.length s - 1) else s in
  L.init (SS.length s / 2) (fun k -> CC.chr (int_of_string ("0x" ^ SS.sub s (2 * k) 2)))
let hex (l : char list) : string =
  if l = [] then "#" else "#" ^ SS.concat "" (L.map (fun c -> Printf.sprintf "%02x" (CC.code c)) l)
let words (l : string) : string list = L.filter (fun w -> w <> "") (SS.split_on_char ' ' l)
let rec nat_to_int = function Datatypes.O -> 0 | Datatypes.S n -> 1 + nat_to_int n
let rec int_to_nat n = if n <= 0 then Datatypes.O else Datatypes.S (int_to_nat (n - 1))
let iter_lines (f : string -> unit) =
  try while true do f (input_line stdin) done with End_of_file -> ()
