From Coq Require Import List Bool Arith Lia Permutation.
Import ListNotations.

(* C13 / C14 core: the CLI as a fold over the selected files.  The library's behaviour on each file is an input
   (an oracle), the file system is a function, results reach the exit status in ANY order (C19). *)
Section Cli.
Variables path content : Type.
Variable path_eqb : path -> path -> bool.
Inductive outcome :=
| Formatted                      (* format_code returns the same text *)
| Unformatted (new : content)    (* returns a different text *)
| Failed.                        (* unreadable, unparseable, verification failed, worker panicked *)
Definition fs := path -> option content.
Definition upd (f : fs) (p : path) (c : content) : fs := fun q => if path_eqb q p then Some c else f q.

Definition level (check : bool) (o : outcome) : nat :=
  match o with Formatted => 0 | Unformatted _ => if check then 1 else 0 | Failed => 2 end.
Definition write (check : bool) (f : fs) (po : path * outcome) : fs :=
  match po with (p, Unformatted c) => if check then f else upd f p c | _ => f end.

Definition run (check : bool) (files : list (path * outcome)) (f : fs) : fs * nat :=
  (fold_left (write check) files f, fold_right Nat.max 0 (map (fun po => level check (snd po)) files)).

(* C13: check mode never writes *)
Theorem check_never_writes files f : fst (run true files f) = f.
Proof. unfold run. cbn [fst]. revert f. induction files as [|[p o] r IH]; intros f; cbn; auto. destruct o; apply IH. Qed.

Lemma max_list_le k l : fold_right Nat.max 0 l <= k <-> Forall (fun x => x <= k) l.
Proof. induction l as [|x r IH]; cbn; split; intros H; auto; try lia.
  - constructor; [lia|apply IH; lia].
  - inversion H; subst. apply IH in H3. lia. Qed.

(* C13: the status tells the truth *)
Theorem check_status_0 files f : snd (run true files f) = 0 <-> Forall (fun po => snd po = Formatted) files.
Proof.
  unfold run; cbn [snd]. split.
  - intros H. assert (L : fold_right Nat.max 0 (map (fun po => level true (snd po)) files) <= 0) by lia.
    apply max_list_le in L. apply Forall_map in L. eapply Forall_impl; [|exact L]. intros [p o] Ho. cbn in *. destruct o; cbn in Ho; auto; lia.
  - intros H. assert (L : Forall (fun x => x <= 0) (map (fun po => level true (snd po)) files)).
    { apply Forall_map. eapply Forall_impl; [|exact H]. intros [p o] Ho. cbn in *. subst. cbn. lia. }
    apply max_list_le in L. lia.
Qed.
Theorem status_2_iff_failure check files f : snd (run check files f) = 2 <-> Exists (fun po => snd po = Failed) files.
Proof.
  unfold run; cbn [snd]. induction files as [|[p o] r IH]; cbn [map fold_right snd].
  - split; [discriminate|intros H; inversion H].
  - assert (B : fold_right Nat.max 0 (map (fun po => level check (snd po)) r) <= 2).
    { apply max_list_le. apply Forall_map. apply Forall_forall. intros [q o'] _. cbn [snd]. destruct o', check; cbn [level]; lia. }
    assert (L : level check o = 2 <-> o = Failed).
    { destruct o, check; cbn [level]; split; intros; try discriminate; try lia; reflexivity. }
    assert (L2 : level check o <= 2) by (destruct o, check; cbn [level]; lia).
    split.
    + intros H. destruct (Nat.eq_dec (level check o) 2) as [E|E].
      * left. cbn [snd]. apply L. exact E.
      * right. apply IH. lia.
    + intros H. inversion H as [? ? E|? ? E]; subst.
      * cbn [snd] in E. apply L in E. lia.
      * apply IH in E. lia.
Qed.

(* C19: the status does not depend on the order in which results arrive *)
Theorem status_order_independent check l1 l2 f1 f2 : Permutation l1 l2 -> snd (run check l1 f1) = snd (run check l2 f2).
Proof.
  unfold run; cbn [snd]. intros P. induction P; cbn [map fold_right]; lia.
Qed.

(* C14: a failing file keeps its bytes, whatever else is processed (distinct paths) *)
Hypothesis path_eqb_spec : forall a b, path_eqb a b = true <-> a = b.
Theorem failing_untouched check files f p :
  (forall o, In (p, o) files -> o = Failed \/ o = Formatted) ->
  fst (run check files f) p = f p.
Proof.
  unfold run; cbn [fst]. revert f. induction files as [|[q o] r IH]; intros f H; cbn [fold_left]; auto.
  rewrite IH by (intros o' Ho; apply H; right; exact Ho).
  destruct o as [|c|]; cbn [write]; auto. destruct check; auto. unfold upd.
  destruct (path_eqb p q) eqn:E; auto. apply path_eqb_spec in E. subst q.
  destruct (H (Unformatted c) (or_introl eq_refl)); discriminate.
Qed.
End Cli.
Print Assumptions check_never_writes.
Print Assumptions status_2_iff_failure.
Print Assumptions failing_untouched.
