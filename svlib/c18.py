"""C18 - diffs printed by --check reconstruct the formatted file (DESIGN 5/C18)."""
from .cli import *

def mutate(rng, text, kind):
    if kind == "asis": return text
    if kind == "crlf": return text.replace("\r\n", "\n").replace("\n", "\r\n")
    if kind == "nofinalnl": return text.rstrip("\n")
    if kind == "firstline": return "local   zz  =  1\n" + text
    if kind == "lastline": return text + ("" if text.endswith("\n") else "\n") + "local   zz  =  1"
    if kind == "spaces":   # many separated hunks: widen a random subset of ` = `
        out = []
        for l in text.split("\n"):
            out.append(l.replace(" = ", "  =   ", 1) if rng.random() < 0.2 else l)
        return "\n".join(out)
    if kind == "blank":    # inserted / deleted blank lines
        out = []
        for l in text.split("\n"):
            if rng.random() < 0.1: out.append("")
            if not (l == "" and rng.random() < 0.5): out.append(l)
        return "\n".join(out)
    if kind == "lonecr":   # a carriage return that is not a line break: inside a long string and inside a long comment
        return "local  zz = [[a\rb]] --[[c\rd]]\n" + text
    if kind == "formatted": return None  # filled by the caller with the formatted text
    raise ValueError(kind)

KINDS = ["asis", "crlf", "nofinalnl", "firstline", "lastline", "spaces", "blank", "lonecr", "formatted"]

def run(res):
    proof = proof_stage(res, "C18", extra_obligations=1)
    build_harness(); build_ml(); build_cli()
    rng = random.Random(res.seed * 7919 + 18)
    files = corpus_files(("tests/inputs", "tests/inputs-sort-requires") if res.tier == "quick" else ("tests/inputs", "tests/inputs-sort-requires", "tests/inputs-ignore", "tests/inputs-collapse-single-statement"))
    per_file = 3 if res.tier == "quick" else 8
    d = scratch("c18")
    try:
        dist = {}
        n = 0
        for f in files:
            text = open(f, encoding="utf-8", errors="replace").read()
            kinds = ["asis"] + rng.sample(KINDS[1:], per_file - 1)
            for k in kinds:
                t = mutate(rng, text, k)
                if t is None:
                    code, out, _ = stylua(["--no-editorconfig", "-"], d, stdin=text.encode())
                    if code != 0: continue
                    t = out.decode()
                dist[k] = dist.get(k, 0) + 1
                n += 1
                with open(os.path.join(d, "f%04d_%s.lua" % (n, k)), "w", encoding="utf-8", newline="") as fh:
                    fh.write(t)
        # tiny hand cases: empty file, one line without newline, only a newline
        for i, t in enumerate(["", "local x = 1", "\n", "local  x=1\n", "x=1\ny=2\nz=3", "-- c\n\n\n\nlocal a\n", "local s = [[a\rb]]\nlocal  x = 1\n"]):
            n += 1
            open(os.path.join(d, "f%04d_tiny%d.lua" % (n, i)), "w", newline="").write(t)
        lib = sh([SVH, "c18", d]).stdout.splitlines()
        names = [l.split()[1] for l in lib if l.startswith("F ")]
        recs = {nm: [] for nm in names}
        for l in lib:
            w = l.split(" ", 2)
            recs[w[1]].append(l)
        base = ["--check", "--no-editorconfig"]
        code_j, out_j, err_j = stylua(base + ["--output-format=json", "."], d)
        seen_j = set()
        for l in out_j.decode("utf-8", "replace").splitlines():
            if not l.strip(): continue
            o = json.loads(l)
            nm = os.path.basename(o["file"])
            seen_j.add(nm)
            parts = []
            for m in o["mismatches"]:
                parts += [str(m["original_start_line"]), str(m["original_end_line"]), str(m["expected_start_line"]), str(m["expected_end_line"]), hexs(m["original"]), hexs(m["expected"])]
            recs[nm].append("J %s %s" % (nm, " ".join(parts)))
        code_s, out_s, _ = stylua(base + ["--output-format=summary", "."], d)
        listed = set(os.path.basename(l.strip()) for l in out_s.decode("utf-8", "replace").splitlines() if l.strip().endswith(".lua"))
        code_d, out_d, _ = stylua(base + ["--color=never", "."], d)
        printed = set(os.path.basename(l.strip()[len("Diff in "):-1]) for l in out_d.decode("utf-8", "replace").splitlines() if l.startswith("Diff in ") and l.rstrip().endswith(":"))
        def unified(nm):
            c, o, e = stylua(base + ["--output-format=unified", nm], d)
            return nm, c, o
        uni = pmap(unified, names)
        exit_codes = {"json": code_j, "summary": code_s, "standard": code_d}
        for nm, c, o in uni:
            if o: recs[nm].append("U %s %s" % (nm, hexs(o)))
            exit_codes.setdefault("unified_hist", {}).setdefault(str(c), 0)
            exit_codes["unified_hist"][str(c)] += 1
        feed = []
        for nm in names:
            feed += recs[nm]
            feed.append("SUM %s %s" % (nm, "listed" if nm in listed else "notlisted"))
            feed.append("STD %s %s" % (nm, "printed" if nm in printed else "notprinted"))
            feed.append("END " + nm)
        r = subprocess.run([driver("drv_c18")], input="\n".join(feed) + "\n", stdout=subprocess.PIPE, stderr=subprocess.PIPE, text=True)
        out = r.stdout.splitlines()
        tot = {}
        bads, samples = [], []
        for l in out:
            if l.startswith("SUMMARY"): tot = {k: int(v) for k, v in parse_kv(l).items()}
            elif l.startswith("BAD"): bads.append(l)
            elif l.startswith("SAMPLE"): samples.append(l[7:])
        tie_ok = r.returncode == 0 and not bads and tot.get("files", 0) == len(names) and len(names) > 0
        if proof["ok"] and tie_ok: res.coverage["discharged"] = proof["discharged"] + 1
        res.coverage.update(
            evaluations=tot.get("files", 0), distinct_nontrivial=tot.get("differing", 0),
            rule="(original, formatted) pairs from the repository's test inputs under %d mutation kinds (as is, CRLF, no final newline, first/last line changed, scattered spacing changes = many hunks, "
                 "blank lines inserted/deleted, a lone carriage return inside a long string and a long comment, already formatted) plus 7 tiny files; each through `stylua --check` in the json, unified, summary and standard formats; a pair is non-trivial when original <> formatted; "
                 "file names are unique per (input, mutation)" % len(KINDS),
            samples=samples or ["(no differing file)"], input_distribution=dict(mutations=dist, exit_codes=exit_codes, **tot),
            correspondence="DiffJson.mismatches (running positions) on similar's script = the binary's JSON, all six fields; the extracted patchers applied to the binary's own JSON and unified output rebuild the library's formatted text; presence of a diff/listing iff the texts differ")
        res.assumptions = ["`similar` returns a valid edit script (checked per file: its projections are the two texts); which script it picks is an oracle the theorems quantify over",
                           "`similar` sometimes shifts an insert/delete across equal lines without renumbering the other side's index (counted per run as scripts_with_shifted_indices); "
                           "since the repair the builder counts positions itself, so the reconstruction theorem applies to every valid script",
                           "the unified-diff text parser in ml/drv_c18.ml (headers -> gaps, `\\ No newline` marker) is glue, not verified",
                           "ratio()==1.0 as the unified no-change test is exact only below ~2^24 lines (f32); not reachable with the inputs here"]
        if not proof["ok"] or not tie_ok:
            if bads:
                seen = set()
                for l in bads:
                    w = l.split()
                    if w[1] in seen or len(seen) >= 4: continue
                    seen.add(w[1])
                    nm = w[2]
                    src = open(os.path.join(d, nm), "rb").read() if os.path.exists(os.path.join(d, nm)) else b""
                    res.violation(dict(kind="input", check=w[1], file=nm, source_hex=hexs(src), expected="diff output that applied to the file gives the formatted text (C18 theorems)"))
            else:
                res.violation(dict(kind="obligation", obligation=dict(theorem_or_correspondence=proof.get("broken_at", "C18 correspondence"), log=(proof["log"][-2000:] if not proof["ok"] else r.stderr[-2000:] + " files=%s/%s" % (tot.get("files"), len(names))))), no_input=True)
    finally:
        cleanup(d)
    return res

def replay(payload):
    build_harness(); build_ml(); build_cli()
    d = scratch("c18r")
    try:
        nm = "case.lua"
        open(os.path.join(d, nm), "wb").write(bytes.fromhex(payload["source_hex"][1:]))
        feed = sh([SVH, "c18", d]).stdout.splitlines()
        c, o, e = stylua(["--check", "--no-editorconfig", "--output-format=json", nm], d)
        for l in o.decode().splitlines():
            if l.strip():
                parts = []
                for m in json.loads(l)["mismatches"]:
                    parts += [str(m["original_start_line"]), str(m["original_end_line"]), str(m["expected_start_line"]), str(m["expected_end_line"]), hexs(m["original"]), hexs(m["expected"])]
                feed.append("J %s %s" % (nm, " ".join(parts)))
        c, o, e = stylua(["--check", "--no-editorconfig", "--output-format=unified", nm], d)
        if o: feed.append("U %s %s" % (nm, hexs(o)))
        feed.append("END " + nm)
        r = subprocess.run([driver("drv_c18")], input="\n".join(feed) + "\n", stdout=subprocess.PIPE, text=True)
        print(r.stdout)
        return 1 if "BAD" in r.stdout else 0
    finally:
        cleanup(d)
