//! C18 tie, library half: for every file of a directory, the original text, the library's formatted text and the
//! edit script `similar` finds between them (the oracle the Coq model is parametrised by).
use crate::common::*;
use similar::{DiffOp, TextDiff};

pub fn main(args: &[String]) {
    silence_panics();
    let dir = &args[0];
    let cfgwords: Vec<&str> = args[1..].iter().map(|s| s.as_str()).collect();
    let cfg = config(&cfgwords);
    let mut names: Vec<_> = std::fs::read_dir(dir).unwrap().filter_map(|e| e.ok()).map(|e| e.path()).filter(|p| p.is_file()).collect();
    names.sort();
    for p in names {
        let name = p.file_name().unwrap().to_string_lossy().to_string();
        let old = match std::fs::read_to_string(&p) { Ok(s) => s, Err(_) => { println!("F {} unreadable", name); continue } };
        match format_guarded(&old, cfg, None) {
            Outcome::Ok(new) => {
                println!("F {} ok {} {}", name, hex(old.as_bytes()), hex(new.as_bytes()));
                // lines end at `\n` only (as for the judge and for every tool that applies a diff): a lone `\r` inside a long string
                // or comment is not a line break
                let (ol, nl): (Vec<&str>, Vec<&str>) = (old.split_inclusive('\n').collect(), new.split_inclusive('\n').collect());
                let diff = TextDiff::configure().newline_terminated(true).diff_slices(&ol, &nl);
                let mut line = format!("OPS {}", name);
                for op in diff.ops() {
                    match *op {
                        DiffOp::Equal { old_index, new_index, len } => line.push_str(&format!(" E:{}:{}:{}", old_index, new_index, len)),
                        DiffOp::Delete { old_index, old_len, new_index } => line.push_str(&format!(" D:{}:{}:{}", old_index, old_len, new_index)),
                        DiffOp::Insert { old_index, new_index, new_len } => line.push_str(&format!(" I:{}:{}:{}", old_index, new_index, new_len)),
                        DiffOp::Replace { old_index, old_len, new_index, new_len } => line.push_str(&format!(" R:{}:{}:{}:{}", old_index, old_len, new_index, new_len)),
                    }
                }
                println!("{}", line);
            }
            Outcome::ParseError => println!("F {} parseerror {}", name, hex(old.as_bytes())),
            Outcome::OtherError(e) => println!("F {} error {}", name, hex(e.as_bytes())),
            Outcome::Panic(e) => println!("F {} panic {}", name, hex(e.as_bytes())),
        }
    }
}
