(* C15 - each file is formatted with the configuration the documented search finds.  Statements only.
   Directories are component lists, innermost first; [has d] is the configuration file of directory d (stylua.toml
   before .stylua.toml: that choice is inside [has]); [root] = Some cwd, or None with --search-parent-directories;
   [top] = the XDG / HOME fallback. *)
From Coq Require Import List.
From SV Require CfgSearch.
Import ListNotations CfgSearch.

Theorem C15_search_is_nearest_ancestor : forall comp cfg eqb, (forall a b : comp, eqb a b = true <-> a = b) ->
  forall (has : dir comp -> option cfg) root top d m,
  cache_ok comp cfg eqb has root top m ->
  fst (find comp cfg eqb has root top m d) = spec comp cfg eqb has root top d /\
  cache_ok comp cfg eqb has root top (snd (find comp cfg eqb has root top m d)).
Proof. exact find_correct. Qed.
Print Assumptions C15_search_is_nearest_ancestor.
(* the memo table is unobservable: ANY history of lookups returns, for each, what the specification says *)
Theorem C15_history_independent : forall comp cfg eqb, (forall a b : comp, eqb a b = true <-> a = b) ->
  forall (has : dir comp -> option cfg) root top ds, run comp cfg eqb has root top [] ds = map (spec comp cfg eqb has root top) ds.
Proof. exact from_empty. Qed.
Check C15_history_independent : forall comp cfg eqb, (forall a b : comp, eqb a b = true <-> a = b) ->
  forall (has : dir comp -> option cfg) root top ds, run comp cfg eqb has root top [] ds = map (spec comp cfg eqb has root top) ds.
Print Assumptions C15_history_independent.
Theorem C15_override_wins : forall value o forced found use_editor editor default i v,
  o i = Some v -> resolve value o forced found use_editor editor default i = v.
Proof. exact override_wins. Qed.
Print Assumptions C15_override_wins.
Theorem C15_forced_wins : forall value o c found use_editor editor default i,
  o i = None -> resolve value o (Some c) found use_editor editor default i = c i.
Proof. exact forced_wins. Qed.
Print Assumptions C15_forced_wins.
Theorem C15_found_over_editorconfig : forall value o c use_editor editor default i,
  o i = None -> resolve value o None (Some c) use_editor editor default i = c i.
Proof. exact found_over_editorconfig. Qed.
Print Assumptions C15_found_over_editorconfig.
Theorem C15_editorconfig_over_default : forall value o editor default i,
  o i = None -> resolve value o None None true editor default i = editor (ov value o default) i.
Proof. exact editorconfig_over_default. Qed.
Print Assumptions C15_editorconfig_over_default.
Theorem C15_default_last : forall value o editor default i,
  o i = None -> resolve value o None None false editor default i = default i.
Proof. exact default_last. Qed.
Print Assumptions C15_default_last.
