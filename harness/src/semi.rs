//! Tie of the semicolon rule (coq/gen/SemiRule.v, coq/theories/Semicolon.v): first statements of every kind (with
//! last expressions of several forms) x next statements that do or do not begin with `(`, in every dialect.
//!   SEMI <syntax> <kind of first> <kind of next> <next begins with paren 0|1> <wf 0|1> <merged 0|1> <kept 0|1|-> <same 0|1|-> <firsthex> <nexthex>
//! wf: every Prefix::Expression of the next statement is an Expression::Parentheses; merged: without a semicolon
//! full_moon does not read the two texts as these two statements; kept: the formatter's output still has the
//! semicolon; same: the output still parses as the same two statements.
use crate::common::*;
use crate::stmts::erased_key;
use full_moon::ast::*;

fn kind(s: &Stmt) -> &'static str {
    match s {
        Stmt::Assignment(_) => "Assignment", Stmt::Do(_) => "Do", Stmt::FunctionCall(_) => "FunctionCall", Stmt::FunctionDeclaration(_) => "FunctionDeclaration",
        Stmt::GenericFor(_) => "GenericFor", Stmt::If(_) => "If", Stmt::LocalAssignment(_) => "LocalAssignment", Stmt::LocalFunction(_) => "LocalFunction",
        Stmt::NumericFor(_) => "NumericFor", Stmt::Repeat(_) => "Repeat", Stmt::While(_) => "While", Stmt::CompoundAssignment(_) => "CompoundAssignment",
        Stmt::ExportedTypeDeclaration(_) => "ExportedTypeDeclaration", Stmt::TypeDeclaration(_) => "TypeDeclaration", Stmt::ExportedTypeFunction(_) => "ExportedTypeFunction",
        Stmt::TypeFunction(_) => "TypeFunction", Stmt::Goto(_) => "Goto", Stmt::Label(_) => "Label", _ => "Unknown",
    }
}
fn prefix_of(s: &Stmt) -> Option<&Prefix> {
    match s {
        Stmt::FunctionCall(c) => Some(c.prefix()),
        Stmt::Assignment(a) => match a.variables().iter().next() { Some(Var::Expression(v)) => Some(v.prefix()), _ => None },
        Stmt::CompoundAssignment(c) => match c.lhs() { Var::Expression(v) => Some(v.prefix()), _ => None },
        _ => None,
    }
}
fn stmts_of(src: &str, v: stylua_lib::LuaVersion) -> Option<Vec<(Stmt, bool)>> {
    let ast = full_moon::parse_fallible(src, v.into()).into_result().ok()?;
    if ast.nodes().last_stmt().is_some() { return None; }
    Some(ast.nodes().stmts_with_semicolon().map(|(s, semi)| (s.clone(), semi.is_some())).collect())
}

const FIRSTS: &[&str] = &[
    "x = y", "x = f()", "x = t.k", "x = 1", "x = \"s\"", "x = {}", "x = function() end", "x = (y)", "x = -y", "x = a .. b", "x = nil", "x = ...", "x, y = a, b", "t.k = f\"s\"", "t[1] = g{}",
    "local x = y", "local x = f()", "local x", "local x, y", "local x = 1", "local x <const> = y", "local x: number = y",
    "f()", "f\"s\"", "f{}", "o:m()", "(g)()", "f()()",
    "repeat until x", "repeat until f()", "repeat local z = 1 until z == 1", "repeat until (x)",
    "x += y", "x ..= f()", "t.k -= 1",
    "do end", "while x do end", "if x then end", "if x then else end", "for i = 1, 2 do end", "for k, v in p do end", "function f() end", "function t.m() end", "function t:m() end",
    "local function f() end", "type T = U", "type T = typeof(x)", "export type T = U", "type T = (number) -> number", "type function tf() end", "goto l", "::l::",
];
const NEXTS: &[&str] = &["(f)()", "(f):m()", "(f)\"s\"", "(t).x = 1", "(t)[1] = 2", "(t).x, y = 1, 2", "(t).x += 1", "f()", "x = 1", "x.y = 1", "x += 1", "local q = 1", "do end"];

pub fn main(_args: &[String]) {
    silence_panics();
    let mut n = 0usize;
    for syn in ["Lua51", "Lua52", "Lua53", "Lua54", "LuaJIT", "Luau"] {
        let v = syntax(syn);
        for first in FIRSTS {
            // `...` needs a vararg function around it; the statement under test stays at the top level of its block
            let f1 = match stmts_of(first, v) { Some(s) if s.len() == 1 => s, _ => continue };
            for next in NEXTS {
                let n1 = match stmts_of(next, v) { Some(s) if s.len() == 1 => s, _ => continue };
                let (k1, k2) = (kind(&f1[0].0), kind(&n1[0].0));
                let pre = prefix_of(&n1[0].0);
                let paren = matches!(pre, Some(Prefix::Expression(_)));
                let wf = match pre { Some(Prefix::Expression(e)) => matches!(&**e, Expression::Parentheses { .. }), _ => true };
                let keys = [erased_key(&f1[0].0), erased_key(&n1[0].0)];
                let same_two = |text: &str| -> bool {
                    match stmts_of(text, v) { Some(s) => s.len() == 2 && erased_key(&s[0].0) == keys[0] && erased_key(&s[1].0) == keys[1], None => false }
                };
                let merged = !same_two(&format!("{}\n{}\n", first, next));
                let src = format!("{};\n{}\n", first, next);
                let (kept, same) = match format_guarded(&src, config(&[&format!("syntax={}", syn)]), None) {
                    Outcome::Ok(o) => {
                        let kept = match stmts_of(&o, v) { Some(s) if !s.is_empty() => if s[0].1 { "1" } else { "0" }, _ => "-" };
                        (kept, if same_two(&o) { "1" } else { "0" })
                    }
                    _ => ("-", "-"),
                };
                n += 1;
                println!("SEMI {} {} {} {} {} {} {} {} {} {}", syn, k1, k2, paren as u8, wf as u8, merged as u8, kept, same, hex(first.as_bytes()), hex(next.as_bytes()));
            }
        }
    }
    println!("STATS records={}", n);
}
