(* Mirror for rs2v's kernel if_guard (src/formatters/stmt.rs is_if_guard): an `if` node as the guard test sees it; the
   collapse rule regenerated from trivia_util.rs is re-exported under the name the source calls it by. *)
From SV Require Export FmAstCol.
From SVgen Require Export CollapseRule.
Inductive TokenReference := mkTok (id : nat).
Inductive CommentSearch := CommentSearch_Single | CommentSearch_Multi | CommentSearch_All.
Record If := { block : Block; else_if : option unit; else_block : option unit; then_token : TokenReference; end_token : TokenReference }.
Definition trivia_util_is_block_simple := is_block_simple.
