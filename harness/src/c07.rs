//! C07 validation: the library call returns - a formatted program when the input parses, a parse error otherwise -
//! without panicking, and within a time budget proportional to the input.  Families that may exhaust the stack are
//! run by the runner in a child process of their own (`--family deep`).
use crate::common::*;
use crate::gen::*;
use std::time::Instant;

fn budget_ms(bytes: usize) -> u128 { 1000 + (bytes as u128) / 20 }   // 1 s + 50 us per byte

fn one(out: &mut dyn std::io::Write, id: &str, syn: &str, words: &[String], range: Option<(usize, usize)>, src: &str, st: &mut [u64; 6]) {
    let wrefs: Vec<&str> = words.iter().map(|s| s.as_str()).collect();
    let cfg = config(&wrefs);
    let v = syntax(syn);
    // full_moon's own parser must not panic either (format_code calls it first)
    let valid = match std::panic::catch_unwind(|| parses(src, v)) { Ok(b) => b, Err(_) => false };
    let r = range.map(|(a, b)| stylua_lib::Range::from_values(Some(a), Some(b)));
    let t0 = Instant::now();
    // ids that start with `verify-` run with the library's output verification on
    let res = format_guarded_v(src, cfg, r, id.starts_with("verify-"));
    let mut ms = t0.elapsed().as_millis();
    // a loaded machine makes single measurements meaningless: a case over budget is measured again (twice), the best time counts
    for _ in 0..2 {
        if ms <= budget_ms(src.len()) { break; }
        let t1 = Instant::now();
        let _ = format_guarded(src, cfg, r);
        ms = ms.min(t1.elapsed().as_millis());
    }
    st[0] += 1;
    if valid { st[1] += 1 } else { st[2] += 1 }
    let verdict = match (&res, valid) {
        (Outcome::Ok(_), true) => "ok",
        (Outcome::ParseError, false) => "ok",
        (Outcome::Ok(_), false) => "success-for-unparseable-input",
        (Outcome::ParseError, true) => "parse-error-for-valid-input",
        (Outcome::OtherError(_), _) => "other-error",
        (Outcome::Panic(_), _) => "panic",
    };
    let slow = ms > budget_ms(src.len());
    if ms > st[3] as u128 { st[3] = ms as u64; }
    if verdict != "ok" || slow {
        let msg = match &res { Outcome::Panic(m) | Outcome::OtherError(m) => m.clone(), _ => String::new() };
        // a slow case whose nesting is deep and whose width forces every level onto several lines belongs to the listed
        // super-linear class (each level is formatted in several variants): named apart so that the list can identify it
        let narrow = words.iter().any(|w| w.starts_with("column_width=") && w["column_width=".len()..].parse::<usize>().map_or(false, |n| n <= 20));
        let slow_kind = if narrow && nesting_depth(src) >= 8 { "slow-nested-narrow" } else { "slow" };
        writeln!(out, "BADCASE {} {} {} {} {} {} {} {}", if verdict != "ok" { verdict } else { slow_kind }, id, syn, words.join(";"),
                 range.map_or("-".to_string(), |(a, b)| format!("{}:{}", a, b)), ms, hex(msg.as_bytes()), hex(src.as_bytes())).unwrap();
    }
}

/// how deep brackets and block keywords nest in the text (a lexical estimate: strings and comments are not skipped)
fn nesting_depth(src: &str) -> usize {
    let (mut d, mut mx) = (0isize, 0isize);
    let b = src.as_bytes();
    let mut i = 0;
    while i < b.len() {
        let c = b[i] as char;
        if c == '(' || c == '{' || c == '[' { d += 1; }
        else if c == ')' || c == '}' || c == ']' { d -= 1; }
        else if c.is_ascii_alphabetic() || c == '_' {
            let st = i;
            while i < b.len() && ((b[i] as char).is_ascii_alphanumeric() || b[i] == b'_') { i += 1; }
            match &src[st..i] { "function" | "do" | "repeat" | "if" => d += 1, "end" | "until" => d -= 1, _ => {} }
            mx = mx.max(d);
            continue;
        }
        mx = mx.max(d);
        i += 1;
    }
    mx.max(0) as usize
}

pub fn main(args: &[String]) {
    silence_panics();
    let (mut seed, mut n, mut shard, mut shards) = (0u64, 100usize, 0usize, 1usize);
    let mut family = "programs".to_string();
    let mut i = 0;
    while i < args.len() {
        match args[i].as_str() {
            "--seed" => { seed = args[i + 1].parse().unwrap(); i += 1 }
            "--n" => { n = args[i + 1].parse().unwrap(); i += 1 }
            "--shard" => { let (a, b) = args[i + 1].split_once('/').unwrap(); shard = a.parse().unwrap(); shards = b.parse().unwrap(); i += 1 }
            "--family" => { family = args[i + 1].clone(); i += 1 }
            _ => panic!("c07: unknown argument {}", args[i]),
        }
        i += 1;
    }
    let stdout = std::io::stdout();
    let mut out = std::io::BufWriter::new(stdout.lock());
    use std::io::Write;
    let mut st = [0u64; 6];
    if family.starts_with("probe-") {
        // one known-finding class per probe; run by the runner in a child process with a time limit
        let default = vec!["syntax=Lua51".to_string()];
        let (syn, src) = match family.as_str() {
            "probe-stack-binops" => ("Lua51", format!("local x = 1{}\n", " + 1".repeat(3000))),
            "probe-stack-parens" => ("Lua51", format!("local x = {}1{}\n", "(".repeat(1000), ")".repeat(1000))),
            "probe-nested-calls" => ("Lua51", format!("local x = {}1{}\n", "f(".repeat(50), ")".repeat(50))),
            "probe-return-nesting" => ("Lua51", format!("{}return 1\n{}", "return f(function()\n".repeat(12), "end)\n".repeat(12))),
            "probe-foreign-operator" => ("Luau", "x = true | y\n".to_string()),
            "probe-silent-recovery" => ("Luau", "local x = { 1, [foo] = if a then b else".to_string()),
            "probe-type-lexer-error" => ("Luau", "local x = b :: n\\".to_string()),
            _ => panic!("unknown probe"),
        };
        let words = if syn == "Luau" { vec!["syntax=Luau".to_string()] } else { default };
        one(&mut out, &family, syn, &words, None, &src, &mut st);
        writeln!(out, "STATS calls={} valid_inputs={} invalid_inputs={} max_ms={}", st[0], st[1], st[2], st[3]).unwrap();
        return;
    }
    if family == "deep" {
        // nesting families inside the bounds where the formatter is expected to cope; beyond them: the probes above
        let default = vec!["syntax=Lua51".to_string()];
        for d in [10usize, 40, 100] {
            for (name, src) in [
                ("parens", format!("local x = {}1{}\n", "(".repeat(d), ")".repeat(d))),
                ("tables", format!("local x = {}1{}\n", "{".repeat(d), "}".repeat(d))),
                ("calls", format!("local x = {}1{}\n", "f(".repeat(d.min(30)), ")".repeat(d.min(30)))),
                ("blocks", format!("{}x()\n{}", "do\n".repeat(d), "end\n".repeat(d))),
                ("binops", format!("local x = 1{}\n", " + 1".repeat(d * 4))),
                ("unops", format!("local x = {}1\n", "not ".repeat(d))),
                ("index", format!("local x = t{}\n", "[1]".repeat(d * 2))),
                ("methods", format!("local x = t{}\n", ":m(1)".repeat(d))),
                ("concat", format!("local x = 'a'{}\n", " .. 'a'".repeat(d * 4))),
            ] {
                writeln!(out, "START {} {}", name, d).unwrap(); out.flush().unwrap();
                one(&mut out, &format!("{}{}", name, d), "Lua51", &default, None, &src, &mut st);
                for w in ["1", "max"] { one(&mut out, &format!("{}{}w{}", name, d, w), "Lua51", &vec!["syntax=Lua51".to_string(), format!("column_width={}", w)], None, &src, &mut st); }
            }
        }
        for k in 1..=6usize {
            let src = format!("{}return 1\n{}", "return f(function()\n".repeat(k), "end)\n".repeat(k));
            writeln!(out, "START return-nesting {}", k).unwrap(); out.flush().unwrap();
            one(&mut out, &format!("retnest{}", k), "Lua51", &default, None, &src, &mut st);
        }
        // number literals of every shape through the output verification (it re-reads every number of input and output)
        for (i, (syn, lit)) in [("Lua51", "0"), ("Lua51", "007"), ("Lua51", ".5"), ("Lua51", "5."), ("Lua51", "1e10"), ("Lua51", "3.25E-2"), ("Lua51", "0xFF"), ("Lua51", "0XaB"),
                                ("Lua51", "0x7FFFFFFFFFFFFFFF"), ("Lua51", "0xFFFFFFFFFFFFFFFF"), ("Lua51", "0xFFFFFFFFFFFFFFFFF"), ("Lua51", "1e400"), ("Lua51", "123456789012345678901234567890"),
                                ("Lua52", "0x1p4"), ("Lua52", "0x.8"), ("Lua52", "0xA.8p-1"), ("Luau", "1_000"), ("Luau", "0b1010"), ("Luau", "0b1111111111111111111111111111111111111111111111111111111111111111"),
                                ("Luau", "0xFFFF_FFFF_FFFF_FFFF"), ("LuaJIT", "10LL"), ("LuaJIT", "0xFFFFFFFFFFFFFFFFULL")].iter().enumerate() {
            let src = format!("local   x = {}\nreturn  -{} + {}\n", lit, lit, lit);
            writeln!(out, "START verify-number {}", i).unwrap(); out.flush().unwrap();
            one(&mut out, &format!("verify-number{}", i), syn, &vec![format!("syntax={}", syn)], None, &src, &mut st);
        }
        // require groups in unusual layouts with sort_requires on (line distances of zero, semicolons, groups of both kinds on one line)
        for (i, src) in ["local a = require('a') local b = require('b')\n", "local b = require('b')\nlocal a = require('a')\n", "local a = require('a');local b = require('b');\n",
                         "local s = game:GetService('S') local r = require('r')\nlocal q = require('q')\n", "local b = require('b') -- c\nlocal a = require('a') local c = require('c')\n"].iter().enumerate() {
            writeln!(out, "START sort-requires {}", i).unwrap(); out.flush().unwrap();
            one(&mut out, &format!("sortreq{}", i), "Luau", &vec!["syntax=Luau".to_string(), "sort_requires=true".to_string()], None, src, &mut st);
        }
        for len in [1000usize, 10000] {
            let src = "local x = f(a, b)\n".repeat(len);
            writeln!(out, "START long-block {}", len).unwrap(); out.flush().unwrap();
            one(&mut out, &format!("block{}", len), "Lua51", &default, None, &src, &mut st);
        }
    } else {
        for k in 0..n {
            if k % shards != shard { continue; }
            let (src, knobs) = nth_program(seed, k, "wild");
            let mut rng = Rng(seed ^ (k as u64).wrapping_mul(0x2545F4914F6CDD1D) ^ 0xC07);
            let len = src.len();
            // extreme and random configurations, ranges of every kind
            let mut cfgs: Vec<Vec<String>> = vec![vec![format!("syntax={}", knobs.syn)]];
            cfgs.push(vec![format!("syntax={}", knobs.syn), "column_width=1".into(), format!("indent_width={}", rng.below(17)), "indent_type=Spaces".into()]);
            cfgs.push(vec![format!("syntax={}", knobs.syn), "column_width=0".into(), "indent_width=0".into(), format!("indent_type={}", if rng.chance(1, 2) { "Spaces" } else { "Tabs" })]);
            cfgs.push(vec![format!("syntax={}", knobs.syn), "column_width=max".into(), format!("indent_width={}", 1 + rng.below(16))]);
            cfgs.push(crate::run::random_config(&mut rng, knobs.syn, true));
            for (c, words) in cfgs.iter().enumerate() {
                let range = match rng.below(6) {
                    0 => None,
                    1 => Some((rng.below(len + 1), rng.below(len + 1))),          // possibly inverted
                    2 => Some((len + rng.below(100), len + 100 + rng.below(1000))), // out of bounds
                    3 => { let a = rng.below(len + 1); Some((a, a)) }             // empty
                    4 => Some((0, usize::MAX / 2)),
                    _ => None,
                };
                one(&mut out, &format!("g{}.{}", k, c), knobs.syn, words, range, &src, &mut st);
            }
            // invalid inputs: truncation and splice
            let mut cut = rng.below(len + 1);
            while !src.is_char_boundary(cut) { cut -= 1; }
            let trunc = &src[..cut];
            one(&mut out, &format!("g{}.trunc", k), knobs.syn, &cfgs[0], None, trunc, &mut st);
            let (other, _) = nth_program(seed, k + 1, "wild");
            let mut cut2 = rng.below(other.len() + 1);
            while !other.is_char_boundary(cut2) { cut2 -= 1; }
            let splice = format!("{}{}", trunc, &other[cut2..]);
            one(&mut out, &format!("g{}.splice", k), knobs.syn, &cfgs[0], None, &splice, &mut st);
            // mutations of the text: a comment, a parenthesis, whitespace at a random place
            let mut pos = rng.below(len + 1);
            while !src.is_char_boundary(pos) { pos -= 1; }
            for (name, ins) in [("comment", " --[[m]] "), ("paren", "("), ("nl", "\n\n"), ("linecomment", " -- m\n")] {
                let m = format!("{}{}{}", &src[..pos], ins, &src[pos..]);
                one(&mut out, &format!("g{}.{}", k, name), knobs.syn, &cfgs[rng.below(cfgs.len())], None, &m, &mut st);
            }
        }
    }
    writeln!(out, "STATS calls={} valid_inputs={} invalid_inputs={} max_ms={}", st[0], st[1], st[2], st[3]).unwrap();
}
