From Coq Require Import List Arith Bool Lia.
Import ListNotations.

Inductive bop := Or | Add | Mul | Concat | Pow.
Definition prec (b : bop) : nat := match b with Or => 1 | Add => 9 | Mul => 10 | Concat => 8 | Pow => 12 end.
Definition rassoc (b : bop) : bool := match b with Concat | Pow => true | _ => false end.
Definition q (b : bop) : nat := if rassoc b then prec b else S (prec b).
Definition uprec := 11.

Inductive expr := Atom | Paren (e : expr) | Un (e : expr) | Bin (b : bop) (l r : expr).
Inductive tok := TA | TL | TR | TU | TB (b : bop).

Fixpoint tokens (e : expr) : list tok :=
  match e with
  | Atom => [TA] | Paren e => TL :: tokens e ++ [TR] | Un e => TU :: tokens e
  | Bin b l r => tokens l ++ TB b :: tokens r
  end.

Fixpoint pexpr (f p : nat) (ts : list tok) {struct f} : option (expr * list tok) :=
  match f with O => None | S f =>
    match pprim f ts with Some (l, r) => ploop f l p r | None => None end end
with ploop (f : nat) (lhs : expr) (p : nat) (ts : list tok) {struct f} : option (expr * list tok) :=
  match f with O => None | S f =>
    match ts with
    | TB b :: r => if p <=? prec b then
                     match pexpr f (q b) r with
                     | Some (rhs, r') => ploop f (Bin b lhs rhs) p r'
                     | None => None end
                   else Some (lhs, ts)
    | _ => Some (lhs, ts)
    end end
with pprim (f : nat) (ts : list tok) {struct f} : option (expr * list tok) :=
  match f with O => None | S f =>
    match ts with
    | TA :: r => Some (Atom, r)
    | TL :: r => match pexpr f 0 r with Some (e, TR :: r') => Some (Paren e, r') | _ => None end
    | TU :: r => match pexpr f uprec r with Some (e, r') => Some (Un e, r') | None => None end
    | _ => None
    end end.

Definition parse (ts : list tok) := match pexpr (3 * length ts + 3) 0 ts with Some (e, []) => Some e | _ => None end.

Definition inf := 100.
Fixpoint rmin (e : expr) : nat :=
  match e with Atom | Paren _ => inf | Un a => Nat.min uprec (rmin a) | Bin b _ r => Nat.min (q b) (rmin r) end.
Definition top_ge (k : nat) (e : expr) : bool := match e with Bin c _ _ => k <=? prec c | _ => true end.
Fixpoint can (e : expr) : bool :=
  match e with
  | Atom => true | Paren e => can e | Un a => can a && top_ge uprec a
  | Bin b l r => can l && can r && (prec b <? rmin l) && top_ge (q b) r
  end.

Fixpoint expr_eqb (a b : expr) : bool :=
  match a, b with
  | Atom, Atom => true | Paren x, Paren y => expr_eqb x y | Un x, Un y => expr_eqb x y
  | Bin o l r, Bin o' l' r' => (prec o =? prec o') && expr_eqb l l' && expr_eqb r r'
  | _, _ => false end.

Definition ops := [Or; Add; Mul; Concat; Pow].
Fixpoint gen (d : nat) : list expr :=
  match d with O => [Atom] | S d =>
    let t := gen d in
    Atom :: map Paren t ++ map Un t ++ flat_map (fun b => flat_map (fun l => map (fun r => Bin b l r) t) t) ops end.

Definition agrees (e : expr) : bool :=
  Bool.eqb (can e) (match parse (tokens e) with Some e' => expr_eqb e e' | None => false end).
Definition parses_somehow (e : expr) : bool := match parse (tokens e) with Some _ => true | None => false end.

Eval vm_compute in (length (gen 2), forallb agrees (gen 2), forallb parses_somehow (gen 2)).
Definition ops3 := [Add; Concat; Pow].
Fixpoint gen3 (d : nat) : list expr :=
  match d with O => [Atom] | S d =>
    let t := gen3 d in
    Atom :: map Paren t ++ map Un t ++ flat_map (fun b => flat_map (fun l => map (fun r => Bin b l r) t) t) ops3 end.
Eval vm_compute in (length (gen3 3), forallb agrees (gen3 3), length (filter can (gen3 3))).
