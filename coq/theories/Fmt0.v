(* L0: an executable model of the WHOLE formatter on a fragment of Lua 5.1 (default options except the whitespace
   ones; column width large enough that nothing is broken over lines).
   Fragment: every statement kind except goto/labels; expressions without function bodies and long strings; line
   comments on their own line before a statement or before the end of a block / of the file, and after a statement
   on its line; blank lines between them.  The model has two halves:
     norm  - what the formatter changes in the tree: redundant parentheses (the rule of Parens.v, contexts as in
             src/formatters), the guard against `- -`;
     print - the token list it writes: blanks, line breaks, indentation.
   Tie: `svh l0` generates programs of the fragment in arbitrary layout (blanks, line breaks, redundant parentheses,
   semicolons, call sugar, single quotes) together with their trees; drv_l0 prints the tree with the functions
   extracted from this file and compares the bytes with the binary's output, for every whitespace configuration. *)
From Coq Require Import List Ascii String Bool Arith.
Import ListNotations.
From SV Require Import Lex LexRender Expr Parens Quote QuoteMore Number CallForm.
Notation tok := Lex.tok (only parsing).

Inductive exp :=
| ENil | ETrue | EFalse | EVararg
| ENum (s : bytes) | EStr (s : bytes) | EName (n : bytes)
| EBrk (lvl : nat) (body : bytes)                    (* a long-bracket string [==[ body ]==], written as it is *)
| EField (p : exp) (n : bytes)                       (* p.n *)
| EIndex (p k : exp)                                 (* p[k] *)
| ECall (f : exp) (sg : bool) (args : list exp)                  (* f(args); sg: the single string / table argument is *)
| EMethod (o : exp) (m : bytes) (sg : bool) (args : list exp)    (* o:m(args)   written without parentheses, f "s" / f { t } *)
| EUn (u : uop) (e : exp) | EBin (b : bop) (l r : exp) | EParen (e : exp)
| ETable (fs : list exp)                             (* fields: FPos / FNamed / FKey only *)
| FPos (e : exp) | FNamed (n : bytes) (e : exp) | FKey (k e : exp)
| ETableML (fs : list exp)                           (* a table whose `{` is followed by a line break in the source: always written over several lines *)
(* the lines of such a table (only there): a field with "an empty line precedes it" and the comment behind its comma;
   a comment on a line of its own.  A bare field among the lines is a field line without either. *)
| FLine (b : bool) (f : exp) (t : option bytes)
| FCom (b : bool) (x : bytes).

(* Comments at statement level.  A comment is the text of a line comment after its two dashes, without trailing
   blanks; [trivia] is a run of own-line comments, each with the flag "a blank line precedes it".
   An item is a statement with the own-line comments in front of it, a blank-line flag for the statement itself, and the
   comment that trails it on its line; a block is its items and the comments left dangling before the closing keyword
   (or the end of the file). *)
Definition trivia := list (bool * bytes).
Inductive stmt :=
| SLocal (ns : list bytes) (es : list exp)
| SAssign (vs es : list exp)
| SCall (e : exp)
| SDo (b : blk)
| SWhile (c : exp) (b : blk)
| SRepeat (b : blk) (c : exp)
| SIf (c : exp) (t : blk) (e : els)
| SNumFor (v : bytes) (a b : exp) (st : option exp) (body : blk)
| SGenFor (ns : list bytes) (es : list exp) (body : blk)
| SFunction (path : list bytes) (meth : option bytes) (ps : list bytes) (va : bool) (body : blk)
| SLocalFunction (n : bytes) (ps : list bytes) (va : bool) (body : blk)
| SReturn (es : list exp) | SBreak
with els := NoElse | Else (b : blk) | ElseIf (c : exp) (t : blk) (e : els)
with item := Item (lead : trivia) (blank : bool) (s : stmt) (trail : option bytes)
with blk := Blk (items : list item) (tail : trivia).

(* ---------------- norm: the tree the formatter writes ---------------- *)
(* the operator shape of an expression, as Parens.v sees it *)
Fixpoint shape (e : exp) : expr :=
  match e with
  | ECall _ _ _ | EMethod _ _ _ _ | EVararg => Multi
  | FLine _ _ _ | FCom _ _ => Multi          (* never looked through: parentheses around a table line (no tree the parser returns) stay *)
  | EParen x => Paren (shape x)
  | EUn u x => Un u (shape x)
  | EBin b l r => Bin b (shape l) (shape r)
  | _ => Atom
  end.
Definition guard0 (u : uop) (x : exp) : exp :=
  match u with Neg => if starts_neg (shape x) then EParen x else x | _ => x end.
Fixpoint nexp (c : ctx) (e : exp) : exp :=
  match e with
  | EParen x => if droppable c (shape x) then nexp c x else EParen (nexp Std x)
  | EUn u x => EUn u (guard0 u (nexp UB x))
  | EBin b l r => EBin b (nexp (lhs_ctx b) l) (nexp UB r)
  | EField p n => EField (nexp Prefix p) n
  | EIndex p k => EIndex (nexp Prefix p) (nexp Std k)
  | ECall f sg args => ECall (nexp Prefix f) sg (map (nexp Std) args)
  | EMethod o m sg args => EMethod (nexp Prefix o) m sg (map (nexp Std) args)
  | ETable fs => ETable (map (nexp Std) fs)
  | ETableML fs => ETableML (map (nexp Std) fs)
  | FLine b f t => FLine b (nexp Std f) t
  | FPos x => FPos (nexp Std x)
  | FNamed n x => FNamed n (nexp Std x)
  | FKey k x => FKey (nexp Std k) (nexp Std x)
  | _ => e
  end.
Definition nexps := map (nexp Std).
(* a condition (if / elseif / while / until) loses every layer of parentheses around it, whatever is inside
   (stmt.rs remove_condition_parentheses: only its truth value is used), then the ordinary rule applies *)
Fixpoint ncond (e : exp) : exp := match e with EParen x => ncond x | _ => nexp Std e end.
Fixpoint nstmt (s : stmt) : stmt :=
  match s with
  | SLocal ns es => SLocal ns (nexps es)
  | SAssign vs es => SAssign (nexps vs) (nexps es)
  | SCall e => SCall (nexp Std e)
  | SDo b => SDo (nblk b)
  | SWhile c b => SWhile (ncond c) (nblk b)
  | SRepeat b c => SRepeat (nblk b) (ncond c)
  | SIf c t e => SIf (ncond c) (nblk t) (nels e)
  | SNumFor v a b st body => SNumFor v (nexp Std a) (nexp Std b) (option_map (nexp Std) st) (nblk body)
  | SGenFor ns es body => SGenFor ns (nexps es) (nblk body)
  | SFunction p m ps va body => SFunction p m ps va (nblk body)
  | SLocalFunction n ps va body => SLocalFunction n ps va (nblk body)
  | SReturn es => SReturn (nexps es)
  | SBreak => SBreak
  end
with nels (e : els) : els :=
  match e with
  | NoElse => NoElse
  | Else b => Else (nblk b)
  | ElseIf c t e => ElseIf (ncond c) (nblk t) (nels e)
  end
with nitem (i : item) : item := match i with Item l b s t => Item l b (nstmt s) t end
with nblk (b : blk) : blk := match b with Blk is tl => Blk (map nitem is) tl end.
Definition nprog := nblk.


(* ---------------- call form: call_parentheses (functions.rs format_function_args, the model of CallForm.v) ----------------
   The single argument of a call is put in the form CallForm.call_form gives for the mode, the form it had, its kind and
   "an index or a method call follows" (format_function_call: the next suffix). *)
Definition sugarable (args : list exp) : bool := match args with [EStr _] | [EBrk _ _] | [ETable _] | [ETableML _] => true | _ => false end.
Definition akind_args (args : list exp) : akind := match args with [EStr _] | [EBrk _ _] => KStr | [ETable _] | [ETableML _] => KTbl | _ => KOther end.
Definition aform_args (sg : bool) (args : list exp) : aform :=
  if sg then match args with [EStr _] | [EBrk _ _] => FStr | [ETable _] | [ETableML _] => FTbl | _ => FParen end else FParen.
Definition newsg (m : cmode) (obs sg : bool) (args : list exp) : bool :=
  match call_form m (aform_args sg args) (akind_args args) obs with FParen => false | _ => true end.
Section CExp.
Variable m : cmode.
Fixpoint cexp (obs : bool) (e : exp) : exp :=
  match e with
  | EField p n => EField (cexp true p) n
  | EIndex p k => EIndex (cexp true p) (cexp false k)
  | ECall f sg args => ECall (cexp false f) (newsg m obs sg args) (map (cexp false) args)
  | EMethod o n sg args => EMethod (cexp true o) n (newsg m obs sg args) (map (cexp false) args)
  | EUn u x => EUn u (cexp false x)
  | EBin b l r => EBin b (cexp false l) (cexp false r)
  | EParen x => EParen (cexp false x)
  | ETable fs => ETable (map (cexp false) fs)
  | ETableML fs => ETableML (map (cexp false) fs)
  | FLine b f t => FLine b (cexp false f) t
  | FPos x => FPos (cexp false x)
  | FNamed n x => FNamed n (cexp false x)
  | FKey k x => FKey (cexp false k) (cexp false x)
  | _ => e
  end.
End CExp.
(* a pass that rewrites every expression of a program and nothing else *)
Section SMap.
Variable fe : exp -> exp.
Fixpoint smap_s (s : stmt) : stmt :=
  match s with
  | SLocal ns es => SLocal ns (map fe es)
  | SAssign vs es => SAssign (map fe vs) (map fe es)
  | SCall e => SCall (fe e)
  | SDo b => SDo (smap_b b)
  | SWhile c b => SWhile (fe c) (smap_b b)
  | SRepeat b c => SRepeat (smap_b b) (fe c)
  | SIf c t e => SIf (fe c) (smap_b t) (smap_r e)
  | SNumFor v a b st body => SNumFor v (fe a) (fe b) (option_map fe st) (smap_b body)
  | SGenFor ns es body => SGenFor ns (map fe es) (smap_b body)
  | SFunction p me ps va body => SFunction p me ps va (smap_b body)
  | SLocalFunction n ps va body => SLocalFunction n ps va (smap_b body)
  | SReturn es => SReturn (map fe es)
  | SBreak => SBreak
  end
with smap_r (e : els) : els :=
  match e with
  | NoElse => NoElse
  | Else b => Else (smap_b b)
  | ElseIf c t e => ElseIf (fe c) (smap_b t) (smap_r e)
  end
with smap_i (i : item) : item := match i with Item l b s t => Item l b (smap_s s) t end
with smap_b (b : blk) : blk := match b with Blk is tl => Blk (map smap_i is) tl end.
End SMap.
Definition cprog (m : cmode) : blk -> blk := smap_b (cexp m false).

(* a predicate on every expression of a program *)
Section SAllDef.
Variable P : exp -> bool.
Definition pall (l : list exp) : bool := forallb P l.
Fixpoint sall_s (s : stmt) : bool :=
  match s with
  | SLocal _ es | SReturn es => pall es
  | SAssign vs es => pall vs && pall es
  | SCall e => P e
  | SDo b => sall_b b
  | SWhile e b | SRepeat b e => P e && sall_b b
  | SIf e t r => P e && sall_b t && sall_r r
  | SNumFor _ a b st body => P a && P b && match st with Some x => P x | None => true end && sall_b body
  | SGenFor _ es body => pall es && sall_b body
  | SFunction _ _ _ _ body | SLocalFunction _ _ _ body => sall_b body
  | SBreak => true
  end
with sall_r (r : els) : bool := match r with NoElse => true | Else b => sall_b b | ElseIf e t r2 => P e && sall_b t && sall_r r2 end
with sall_i (i : item) : bool := match i with Item _ _ s _ => sall_s s end
with sall_b (b : blk) : bool := match b with Blk is _ => forallb sall_i is end.
End SAllDef.
(* the premise of the idempotence theorem (Fmt0Idem.v, C06): no unary minus in front of something that - through parentheses -
   starts with a unary minus, in any expression *)
(* guard-free, on every expression inside *)
Fixpoint gfe (e : exp) : bool :=
  match e with
  | EUn u x => (match u with Neg => negb (starts_neg (shape x)) | _ => true end) && gfe x
  | EParen x | FPos x | FNamed _ x | FLine _ x _ | EField x _ => gfe x
  | EBin _ l r | FKey l r | EIndex l r => gfe l && gfe r
  | ECall f _ args | EMethod f _ _ args => gfe f && forallb gfe args
  | ETable fs | ETableML fs => forallb gfe fs
  | _ => true
  end.
Definition guard_free (p : blk) : bool := sall_b gfe p.

(* ---------------- print: the tokens the formatter writes ---------------- *)
(* collapse_simple_statement (context.rs should_collapse_simple_functions / should_collapse_simple_conditionals) *)
Inductive collapse := CNever | CFunction | CConditional | CAlways.
Definition collapse_fun (m : collapse) : bool := match m with CFunction | CAlways => true | _ => false end.
Definition collapse_if (m : collapse) : bool := match m with CConditional | CAlways => true | _ => false end.
Record cfg0 := { windows0 : bool; spaces0 : bool; width0 : nat; style0 : QuoteMore.style; callp0 : cmode; space0 : smode; collapse0 : collapse }.
(* trivia_util.rs is_block_simple, without comments anywhere in the block (stmt.rs is_if_guard, functions.rs
   should_collapse_function_body): one statement that is a return, a break, a call, or a local / an assignment with one
   name and at most one value.  (In this fragment every expression is "simple": there are no function bodies.) *)
Definition simple_stmt (s : stmt) : bool :=
  match s with
  | SReturn _ | SBreak | SCall _ => true
  | SLocal [_] es | SAssign [_] es => Nat.leb (List.length es) 1
  | _ => false
  end.
Definition simple_blk (b : blk) : option stmt :=
  match b with Blk [Item [] _ s None] [] => if simple_stmt s then Some s else None | _ => None end.
Definition if_guard (c : cfg0) (t : blk) (r : els) : option stmt :=
  if collapse_if (collapse0 c) then match r with NoElse => simple_blk t | _ => None end else None.
Definition fun_guard (c : cfg0) (b : blk) : option stmt := if collapse_fun (collapse0 c) then simple_blk b else None.
Definition kw (s : string) : tok := TSym (str s).
Definition sp : tok := TWs [SP].
Definition eol (c : cfg0) : tok := TWs (if windows0 c then [CR; LF] else [LF]).
Definition indent (c : cfg0) (d : nat) : list tok :=
  match d with
  | O => []
  | _ => [TWs (if spaces0 c then repeat SP (d * width0 c) else repeat TAB d)]
  end.
Definition bop_text (b : bop) : string :=
  match b with
  | Or => "or" | And => "and" | Lt => "<" | Gt => ">" | Le => "<=" | Ge => ">=" | Ne => "~=" | Eq => "=="
  | BOr => "|" | BXor => "~" | BAnd => "&" | Shl => "<<" | Shr => ">>" | Concat => ".."
  | Add => "+" | Sub => "-" | Mul => "*" | Div => "/" | IDiv => "//" | Mod => "%" | Pow => "^"
  end%string.
Definition uop_toks (u : uop) : list tok :=
  match u with Neg => [kw "-"] | Not => [kw "not"; sp] | Len => [kw "#"] | BNot => [kw "~"] end.
(* items separated by `, ` *)
Fixpoint commas (l : list (list tok)) : list tok :=
  match l with
  | [] => []
  | [x] => x
  | x :: r => x ++ kw "," :: sp :: commas r
  end.
(* a quoted string is written with the quote QuoteMore.choose picks for its body, the body rewritten for that quote
   (general.rs format_token / get_quote_to_use: the models of C04 and C11); a number through Number.number_rewrite *)
Definition qkind_of (q : Quote.quote) : qkind := match q with QS => QSingle | QD => QDouble end.
Definition pstr (st : QuoteMore.style) (body : bytes) : tok :=
  let q := QuoteMore.choose st body in TStr (qkind_of q) 0 (Quote.rewrite q body).
(* the quote rule judged on an output token alone (C11): a quoted string carries the quote QuoteMore.choose picks for its own
   body - the forced one, or the preferred one unless the other needs strictly fewer escapes (QuoteMore.choose_stable: the
   choice for the rewritten body is the choice for the source body) *)
Definition quote_ok (st : QuoteMore.style) (t : tok) : bool :=
  match t with
  | TStr QSingle _ b => match QuoteMore.choose st b with QS => true | QD => false end
  | TStr QDouble _ b => match QuoteMore.choose st b with QD => true | QS => false end
  | _ => true
  end.
(* the expression is, or once formatted begins with, a long-bracket string (expression.rs is_brackets_string): behind the `[` of an
   index or of a table key it is kept away from the bracket by a blank on either side, or `[ [[s]] ]` would read `[[[s]]]` *)
Fixpoint bstr (e : exp) : bool :=
  match e with EBrk _ _ => true | EParen x => bstr x | EBin _ l _ => bstr l | _ => false end.
Definition brk (b : bool) (xs : list tok) : list tok := if b then kw "[" :: sp :: xs ++ [sp; kw "]"] else kw "[" :: xs ++ [kw "]"].
Section PExp.
Variable c : cfg0.
(* space_after_function_names (context.rs / functions.rs create_function_call_trivia): a blank before the `(` of a call
   under Calls / Always.  Without parentheses there is always one blank, and the option adds its own. *)
Definition gap_call : list tok := if space_call (space0 c) then [sp] else [].
Definition gap_sugar : tok := TWs (SP :: (if space_call (space0 c) then [SP] else [])).
(* the arguments [xs] of a call, without parentheses ([sug]) or inside them *)
Definition pargs (sug : bool) (xs : list tok) : list tok := if sug then gap_sugar :: xs else gap_call ++ kw "(" :: xs ++ [kw ")"].
(* [d]: the indentation level of the line the expression starts on; a table written over several lines puts each field on
   a line of its own one level deeper, a comma behind every field, and its closing brace back on level [d] *)
Fixpoint pexp (d : nat) (e : exp) {struct e} : list tok :=
  match e with
  | ENil => [kw "nil"] | ETrue => [kw "true"] | EFalse => [kw "false"] | EVararg => [kw "..."]
  | ENum s => [TNum (Number.number_rewrite s)] | EStr s => [pstr (style0 c) s] | EName n => [TIdent n]
  | EBrk n b => [TStr QBrackets n b]
  | EField p n => pexp d p ++ [kw "."; TIdent n]
  | EIndex p k => pexp d p ++ brk (bstr k) (pexp d k)
  | ECall f sg args => pexp d f ++ pargs (sg && sugarable args) (commas (map (pexp d) args))
  | EMethod o m sg args => pexp d o ++ kw ":" :: TIdent m :: pargs (sg && sugarable args) (commas (map (pexp d) args))
  | EUn u x => uop_toks u ++ pexp d x
  | EBin b l r => pexp d l ++ sp :: kw (bop_text b) :: sp :: pexp d r
  | EParen x => kw "(" :: pexp d x ++ [kw ")"]
  | ETable [] => [kw "{"; kw "}"]
  | ETable fs => kw "{" :: sp :: commas (map (pexp d) fs) ++ [sp; kw "}"]
  | FPos x => pexp d x
  | FNamed n x => TIdent n :: sp :: kw "=" :: sp :: pexp d x
  | FKey k x => brk (bstr k) (pexp d k) ++ sp :: kw "=" :: sp :: pexp d x
  | ETableML [] => [kw "{"; kw "}"]
  | ETableML fs =>
    kw "{" :: eol c :: List.concat (map (fun x =>
      match x with
      | FCom b t => (if b then [eol c] else []) ++ indent c (S d) ++ [TLineCom t; eol c]
      | FLine b f t => (if b then [eol c] else []) ++ indent c (S d) ++ pexp (S d) f ++ kw "," :: (match t with Some t1 => [sp; TLineCom t1] | None => [] end) ++ [eol c]
      | f => indent c (S d) ++ pexp (S d) f ++ [kw ","; eol c]
      end) fs) ++ indent c d ++ [kw "}"]
  (* outside the lines of such a table the two line forms have no layout of their own *)
  | FLine _ f _ => pexp d f
  | FCom _ _ => [kw "nil"]
  end.
Definition pexps (d : nat) (es : list exp) : list tok := commas (map (pexp d) es).
End PExp.
Definition pnames (ns : list bytes) : list tok := commas (map (fun n => [TIdent n]) ns).
Definition pparams (c : cfg0) (ps : list bytes) (va : bool) : list tok :=
  (if space_definition (space0 c) then [sp] else []) ++ kw "(" :: commas (map (fun n => [TIdent n]) ps ++ (if va then [[kw "..."]] else [])) ++ [kw ")"].
Fixpoint dotted (p : list bytes) : list tok :=
  match p with [] => [] | [n] => [TIdent n] | n :: r => TIdent n :: kw "." :: dotted r end.

Section Print.
Variable c : cfg0.
Notation pexp := (pexp c).
Notation pexps := (pexps c).
(* own-line comments: an optional empty line, the indentation, the comment, the line ending *)
Definition ptrivia (d : nat) (tv : trivia) : list tok :=
  List.concat (map (fun bc : bool * bytes => (if fst bc then [eol c] else []) ++ indent c d ++ [TLineCom (snd bc); eol c]) tv).
Definition ptrail (t : option bytes) : list tok := match t with Some x => [sp; TLineCom x] | None => [] end.
(* no comment among the tokens *)
Definition nocom (ts : list tok) : bool := forallb (fun t => match t with TLineCom _ | TBlockCom _ _ => false | _ => true end) ts.
(* no line break among the tokens *)
Definition oneline (ts : list tok) : bool := forallb (fun t => match t with TWs w => negb (existsb (fun ch => Ascii.eqb ch LF) w) | _ => true end) ts.
Definition blk_empty (b : blk) : bool := match b with Blk [] [] => true | _ => false end.
(* the statements that have no block inside: their tokens do not depend on the indentation *)
Definition psimple (d : nat) (s : stmt) : list tok :=
  match s with
  | SLocal ns [] => kw "local" :: sp :: pnames ns
  | SLocal ns es => kw "local" :: sp :: pnames ns ++ sp :: kw "=" :: sp :: pexps d es
  | SAssign vs es => pexps d vs ++ sp :: kw "=" :: sp :: pexps d es
  | SCall e => pexp d e
  | SReturn [] => [kw "return"]
  | SReturn es => kw "return" :: sp :: pexps d es
  | SBreak => [kw "break"]
  | _ => []
  end.
(* one statement per line: indentation, the statement, the line ending.
   The lines of a block are written with map / concat so that the unfolding equations hold by computation. *)
Fixpoint pstmt (d : nat) (s : stmt) {struct s} : list tok :=
  let fbody (b : blk) : list tok :=
    if blk_empty b then [sp; kw "end"]
    else match fun_guard c b with
         | Some s1 => if oneline (psimple d s1) && nocom (psimple d s1) then sp :: psimple d s1 ++ [sp; kw "end"]         (* function f() return x end *)
                      else eol c :: pblk (S d) b ++ indent c d ++ [kw "end"]                      (* functions.rs: spans_multiple_lines *)
         | None => eol c :: pblk (S d) b ++ indent c d ++ [kw "end"]
         end in
  match s with
  | SLocal _ _ | SAssign _ _ | SCall _ | SReturn _ | SBreak => psimple d s
  | SDo b => kw "do" :: eol c :: pblk (S d) b ++ indent c d ++ [kw "end"]
  | SWhile e b => kw "while" :: sp :: pexp d e ++ sp :: kw "do" :: eol c :: pblk (S d) b ++ indent c d ++ [kw "end"]
  | SRepeat b e => kw "repeat" :: eol c :: pblk (S d) b ++ indent c d ++ kw "until" :: sp :: pexp d e
  | SIf e t r =>
    match if_guard c t r with
    | Some s1 =>
      if nocom (psimple d s1) then kw "if" :: sp :: pexp d e ++ sp :: kw "then" :: sp :: psimple d s1 ++ [sp; kw "end"]      (* if x then return end *)
      else kw "if" :: sp :: pexp d e ++ sp :: kw "then" :: eol c :: pblk (S d) t ++ pels d r ++ indent c d ++ [kw "end"]
    | None => kw "if" :: sp :: pexp d e ++ sp :: kw "then" :: eol c :: pblk (S d) t ++ pels d r ++ indent c d ++ [kw "end"]
    end
  | SNumFor v a b st body =>
    kw "for" :: sp :: TIdent v :: sp :: kw "=" :: sp :: pexp d a ++ kw "," :: sp :: pexp d b ++
    (match st with Some x => kw "," :: sp :: pexp d x | None => [] end) ++ sp :: kw "do" :: eol c :: pblk (S d) body ++ indent c d ++ [kw "end"]
  | SGenFor ns es body =>
    kw "for" :: sp :: pnames ns ++ sp :: kw "in" :: sp :: pexps d es ++ sp :: kw "do" :: eol c :: pblk (S d) body ++ indent c d ++ [kw "end"]
  | SFunction p m ps va body =>
    kw "function" :: sp :: dotted p ++ (match m with Some n => [kw ":"; TIdent n] | None => [] end) ++ pparams c ps va ++ fbody body
  | SLocalFunction n ps va body => kw "local" :: sp :: kw "function" :: sp :: TIdent n :: pparams c ps va ++ fbody body
  end
with pels (d : nat) (r : els) {struct r} : list tok :=
  match r with
  | NoElse => []
  | Else b => indent c d ++ kw "else" :: eol c :: pblk (S d) b
  | ElseIf e2 t2 r2 => indent c d ++ kw "elseif" :: sp :: pexp d e2 ++ sp :: kw "then" :: eol c :: pblk (S d) t2 ++ pels d r2
  end
with pitem (d : nat) (i : item) {struct i} : list tok :=
  match i with
  | Item lead blank s trail =>
    ptrivia d lead ++ (if blank then [eol c] else []) ++ indent c d ++ pstmt d s ++ ptrail trail ++ [eol c]
  end
with pblk (d : nat) (b : blk) {struct b} : list tok :=
  match b with Blk is tl => List.concat (map (pitem d) is) ++ ptrivia d tl end.
Definition pprog (p : blk) : list tok := pblk 0 p.
End Print.


(* the formatter on L0: bytes of the output for a program *)
Definition norm0 (c : cfg0) (p : blk) : blk := cprog (callp0 c) (nprog p).
Definition format0 (c : cfg0) (p : blk) : bytes := render (pprog c (norm0 c p)).
