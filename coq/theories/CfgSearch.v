From Coq Require Import List Bool Arith Lia.
Import ListNotations.

(* C15 core: upward search with a memo table.  A directory is the list of its components, innermost first,
   so the parent of (c :: d) is d and the file-system root is [].  [has d] = the configuration found in d, if any. *)
Section Search.
Variable comp cfg : Type.
Variable comp_eqb : comp -> comp -> bool.
Hypothesis comp_eqb_spec : forall a b, comp_eqb a b = true <-> a = b.
Definition dir := list comp.
Variable has : dir -> option cfg.
(* [top] = what the walk yields when it runs out of directories: None when bounded by the working directory
   (a target outside it), the XDG / HOME result with --search-parent-directories; [root] = Some cwd or None *)
Variable root : option dir.
Variable top : option cfg.

Fixpoint dir_eqb (a b : dir) : bool :=
  match a, b with [], [] => true | x :: a', y :: b' => comp_eqb x y && dir_eqb a' b' | _, _ => false end.
Lemma dir_eqb_spec a b : dir_eqb a b = true <-> a = b.
Proof.
  revert b; induction a as [|x a IH]; destruct b as [|y b]; cbn; split; intros H; try discriminate; auto.
  - apply andb_true_iff in H. destruct H as [H1 H2]. apply comp_eqb_spec in H1. apply IH in H2. congruence.
  - inversion H; subst. apply andb_true_iff. split; [apply comp_eqb_spec; auto | apply IH; auto].
Qed.
Definition is_root (d : dir) : bool := match root with Some r => dir_eqb d r | None => false end.

(* the specification: nearest ancestor-or-self holding a configuration, stopping at the root *)
Fixpoint spec (d : dir) : option cfg :=
  match has d with
  | Some c => Some c
  | None => if is_root d then None
            else match d with
                 | [] => top
                 | _ :: parent => spec parent
                 end
  end.

(* the implementation: the same walk, consulting and filling a memo table (association list) *)
Definition cache := list (dir * option cfg).
Fixpoint lookup (m : cache) (d : dir) : option (option cfg) :=
  match m with [] => None | (k, v) :: r => if dir_eqb k d then Some v else lookup r d end.

Fixpoint find (m : cache) (d : dir) : option cfg * cache :=
  match lookup m d with
  | Some v => (v, m)
  | None =>
    match has d with
    | Some c => (Some c, (d, Some c) :: m)
    | None =>
      if is_root d then (None, (d, None) :: m)
      else match d with
           | [] => (* parent_directory.is_none(): a fallback hit returns early without filling the table *)
                   match top with Some c => (Some c, m) | None => (None, (d, None) :: m) end
           | _ :: parent => let '(r, m') := find m parent in (r, (d, r) :: m')
           end
    end
  end.

Definition cache_ok (m : cache) : Prop := forall d v, lookup m d = Some v -> v = spec d.

Lemma lookup_cons m k v d : lookup ((k, v) :: m) d = if dir_eqb k d then Some v else lookup m d.
Proof. reflexivity. Qed.

Lemma cache_ok_cons m k v : cache_ok m -> v = spec k -> cache_ok ((k, v) :: m).
Proof.
  intros Hm Hv d w H. rewrite lookup_cons in H. destruct (dir_eqb k d) eqn:E.
  - apply dir_eqb_spec in E. subst. congruence.
  - eauto.
Qed.

Theorem find_correct : forall d m, cache_ok m -> fst (find m d) = spec d /\ cache_ok (snd (find m d)).
Proof.
  induction d as [|c parent IH]; intros m Hm.
  - cbn [find]. destruct (lookup m []) as [v|] eqn:L; [cbn [fst snd]; split; auto|].
    cbn [spec]. destruct (has []) as [c0|] eqn:H0; cbn [fst snd].
    + split; auto. apply cache_ok_cons; auto. cbn. rewrite H0. reflexivity.
    + destruct (is_root []) eqn:R; cbn [fst snd].
      * split; auto. apply cache_ok_cons; auto. cbn. rewrite H0, R. reflexivity.
      * destruct top as [c0|] eqn:F; cbn [fst snd]; split; auto.
        apply cache_ok_cons; auto. cbn. rewrite H0, R. auto.
  - cbn [find]. destruct (lookup m (c :: parent)) as [v|] eqn:L; [cbn [fst snd]; split; auto|].
    cbn [spec]. destruct (has (c :: parent)) as [c0|] eqn:H0; cbn [fst snd].
    + split; auto. apply cache_ok_cons; auto. cbn. rewrite H0. reflexivity.
    + destruct (is_root (c :: parent)) eqn:R; cbn [fst snd].
      * split; auto. apply cache_ok_cons; auto. cbn. rewrite H0, R. reflexivity.
      * destruct (IH m Hm) as [Hr Hc]. destruct (find m parent) as [r m'] eqn:F. cbn [fst snd] in *.
        split; auto. apply cache_ok_cons; auto. cbn. rewrite H0, R. auto.
Qed.

(* any history of lookups: memoisation is unobservable *)
Fixpoint run (m : cache) (ds : list dir) : list (option cfg) :=
  match ds with [] => [] | d :: r => let '(v, m') := find m d in v :: run m' r end.
Theorem history_independent : forall ds m, cache_ok m -> run m ds = map spec ds.
Proof.
  induction ds as [|d r IH]; intros m Hm; cbn; auto.
  destruct (find_correct d m Hm) as [Hv Hc]. destruct (find m d) as [v m']. cbn in *. rewrite Hv, (IH m' Hc). reflexivity.
Qed.
Corollary from_empty ds : run [] ds = map spec ds.
Proof. apply history_independent. intros d v H. discriminate. Qed.
End Search.

(* precedence: --config-path > nearest config file > .editorconfig (unless disabled) > defaults; command-line format
   options applied last in every case.  A configuration is a function from option index to value. *)
Section Precedence.
Variable value : Type.
Definition config := nat -> value.
Definition overrides := nat -> option value.
Definition ov (o : overrides) (c : config) : config := fun i => match o i with Some v => v | None => c i end.
(* [editor] = what editorconfig::parse does to a configuration for the file at hand *)
Definition resolve (o : overrides) (forced found : option config) (use_editor : bool) (editor : config -> config) (default : config) : config :=
  match forced with
  | Some c => ov o c
  | None => match found with
            | Some c => ov o c
            | None => if use_editor then ov o (editor (ov o default)) else ov o default
            end
  end.
Theorem override_wins o forced found use_editor editor default i v :
  o i = Some v -> resolve o forced found use_editor editor default i = v.
Proof. intros H. unfold resolve. destruct forced; [|destruct found; [|destruct use_editor]]; unfold ov; rewrite H; reflexivity. Qed.
Theorem forced_wins o c found use_editor editor default i :
  o i = None -> resolve o (Some c) found use_editor editor default i = c i.
Proof. intros H. unfold resolve, ov. rewrite H. reflexivity. Qed.
Theorem found_over_editorconfig o c use_editor editor default i :
  o i = None -> resolve o None (Some c) use_editor editor default i = c i.
Proof. intros H. unfold resolve, ov. rewrite H. reflexivity. Qed.
Theorem editorconfig_over_default o editor default i :
  o i = None -> resolve o None None true editor default i = editor (ov o default) i.
Proof. intros H. unfold resolve, ov at 1. rewrite H. reflexivity. Qed.
Theorem default_last o editor default i :
  o i = None -> resolve o None None false editor default i = default i.
Proof. intros H. unfold resolve, ov. rewrite H. reflexivity. Qed.
End Precedence.
