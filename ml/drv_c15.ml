(* C15 judge: the configuration search, extracted from Coq (CfgSearch.run = the memoising walk over a whole history
   of lookups; CfgSearch.spec = nearest ancestor), against which configuration the binary visibly applied.
   Records: SCN id | ROOT <abs dir | NONE> | TOP <id | -> | HAS <abs dir> <id> | FORCED <id | -> | EDITOR <abs dir | -> <0|1 disabled>
            | TARGET <abs dir of the file> <observed id> <label> | END.   ids are opaque strings. *)
open Util
let comps (p : string) : string list = L.rev (L.filter (fun c -> c <> "") (SS.split_on_char '/' p))   (* innermost first *)
let scn = ref "" and root = ref None and top = ref None and has = ref [] and forced = ref None and editor = ref None and noeditor = ref false and targets = ref []
let scenarios = ref 0 and lookups = ref 0 and bad = ref 0 and by_source = Hashtbl.create 8 and samples = ref 0
let report k = incr bad; Printf.printf "BAD %s %s\n" k !scn
let is_prefix_dir (anc : string list) (d : string list) =  (* anc is an ancestor-or-self of d; both innermost first *)
  let a = L.rev anc and b = L.rev d in
  let rec go a b = match a, b with [], _ -> true | x :: a', y :: b' -> x = y && go a' b' | _ -> false in go a b
let finish () =
  incr scenarios;
  let ts = L.rev !targets in
  let has_fn d = try Some (L.assoc d !has) with Not_found -> None in
  let dirs = L.map (fun (d, _, _) -> d) ts in
  let eqb (a : string) b = a = b in
  let found_hist = CfgSearch.run eqb has_fn !root !top [] dirs in
  let found_spec = L.map (CfgSearch.spec eqb has_fn !root !top) dirs in
  if found_hist <> found_spec then report "memo-table-observable(model)";
  L.iter2 (fun (d, obs, label) found ->
    incr lookups;
    let expected = match !forced with
      | Some f -> f
      | None -> (match found with
                 | Some c -> c
                 | None -> (match !editor with
                            | Some e when not !noeditor && is_prefix_dir e d -> "editor"
                            | _ -> "default")) in
    let src = if !forced <> None then "forced" else if found <> None then "found" else expected in
    Hashtbl.replace by_source src (1 + try Hashtbl.find by_source src with Not_found -> 0);
    if obs <> expected then report (Printf.sprintf "config:%s:observed-%s-expected-%s" label obs expected)) ts found_hist;
  if !samples < 5 && !scenarios mod 23 = 1 then (incr samples;
    Printf.printf "SAMPLE %s root=%s configs=[%s] targets=[%s]\n" !scn (match !root with Some r -> SS.concat "/" (L.rev r) | None -> "NONE")
      (SS.concat "," (L.map (fun (d, i) -> SS.concat "/" (L.rev d) ^ "=" ^ i) !has))
      (SS.concat "," (L.map (fun (d, o, _) -> SS.concat "/" (L.rev d) ^ "->" ^ o) ts)))
let handle line = match words line with
  | ["SCN"; id] -> scn := id; root := None; top := None; has := []; forced := None; editor := None; noeditor := false; targets := []
  | ["ROOT"; "NONE"] -> root := None
  | ["ROOT"; d] -> root := Some (comps d)
  | ["TOP"; "-"] -> top := None | ["TOP"; i] -> top := Some i
  | ["HAS"; d; i] -> has := (comps d, i) :: !has
  | ["FORCED"; "-"] -> forced := None | ["FORCED"; i] -> forced := Some i
  | ["EDITOR"; "-"; _] -> editor := None
  | ["EDITOR"; d; dis] -> editor := Some (comps d); noeditor := (dis = "1")
  | ["TARGET"; d; obs; label] -> targets := (comps d, obs, label) :: !targets
  | ["END"] -> finish ()
  | [] -> ()
  | _ -> incr bad; Printf.printf "BAD unreadable-record %s\n" line
let () =
  iter_lines handle;
  Printf.printf "SUMMARY scenarios=%d lookups=%d bad=%d %s\n" !scenarios !lookups !bad
    (SS.concat " " (Hashtbl.fold (fun k v acc -> (k ^ "=" ^ string_of_int v) :: acc) by_source []))
