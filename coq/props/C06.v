(* C06 - formatting is idempotent.  Statements only.
   Partial: idempotence of every kernel that rewrites text or reorders (quotes, quote choice, newline conversion,
   comment trimming, require sorting); whole-program idempotence is validated (second pass byte-compared), with the
   known non-idempotent inputs of the fixed regression set listed per input. *)
From Coq Require Import List Ascii.
From SV Require Quote QuoteMore Bracket BracketProof Census TriviaProof SortReq SortReqProof.
Import ListNotations.
Theorem C06_quote_rewrite_idempotent : forall q s, Quote.rewrite q (Quote.rewrite q s) = Quote.rewrite q s.
Proof. exact QuoteMore.rewrite_idem. Qed.
Print Assumptions C06_quote_rewrite_idempotent.
Theorem C06_quote_choice_stable : forall st q s, QuoteMore.choose st (Quote.rewrite q s) = QuoteMore.choose st s.
Proof. exact QuoteMore.choose_stable. Qed.
Print Assumptions C06_quote_choice_stable.
Theorem C06_newline_conversion_idempotent : forall e s, Bracket.no_lone_cr s = true -> Bracket.conv e (Bracket.conv e s) = Bracket.conv e s.
Proof. exact BracketProof.conv_idem. Qed.
Print Assumptions C06_newline_conversion_idempotent.
Theorem C06_comment_trimming_idempotent : forall s, Census.trim_end (Census.trim_end s) = Census.trim_end s.
Proof. exact TriviaProof.trim_end_idem. Qed.
Print Assumptions C06_comment_trimming_idempotent.
Theorem C06_require_group_sorting_idempotent : forall body trivia g,
  SortReq.sort_group (list ascii) SortReq.str_leb body trivia (SortReq.sort_group (list ascii) SortReq.str_leb body trivia g) =
  SortReq.sort_group (list ascii) SortReq.str_leb body trivia g.
Proof. intros. apply (SortReqProof.sort_group_idem (list ascii) SortReq.str_leb SortReqProof.str_leb_total). Qed.
Print Assumptions C06_require_group_sorting_idempotent.

(* L0 - the whole-formatter model on a fragment of Lua 5.1 (Fmt0.v), tied to the binary byte for byte on every run:
   normalisation is not idempotent; the witness `local x = (- -f())` is replayed on the binary by the check (known finding) *)
From SV Require Fmt0 Fmt0Proof.
Theorem C06_L0_normalisation_not_idempotent_refuted : exists p, Fmt0.nprog (Fmt0.nprog p) <> Fmt0.nprog p.
Proof. exact Fmt0Proof.nprog_not_idempotent_refuted. Qed.
Print Assumptions C06_L0_normalisation_not_idempotent_refuted.
(* the same on what format0 applies (parentheses, then call form) ... *)
Theorem C06_L0_both_passes_not_idempotent_refuted : exists c p, Fmt0.norm0 c (Fmt0.norm0 c p) <> Fmt0.norm0 c p.
Proof. exact Fmt0Proof.norm0_not_idempotent_refuted. Qed.
Print Assumptions C06_L0_both_passes_not_idempotent_refuted.
(* ... while the call-form pass alone is idempotent on every expression, whatever follows it *)
Theorem C06_L0_call_form_pass_idempotent : forall m e o, Fmt0.cexp m o (Fmt0.cexp m o e) = Fmt0.cexp m o e.
Proof. exact Fmt0Proof.cexp_idempotent. Qed.
Print Assumptions C06_L0_call_form_pass_idempotent.
(* ... and both passes together are idempotent on every program in which no unary minus is written directly in front of
   something that starts with a unary minus (`- -x`): the tree format0 writes is a fixed point of format0's passes, so formatting it
   again gives the same bytes (conditions included: every layer of parentheses around them goes in one pass) *)
From SV Require Fmt0Idem ParensIdem.
Theorem C06_L0_both_passes_idempotent_without_a_double_minus : forall c p,
  Fmt0.guard_free p = true -> Fmt0.norm0 c (Fmt0.norm0 c p) = Fmt0.norm0 c p.
Proof. exact Fmt0Idem.norm0_idempotent. Qed.
Print Assumptions C06_L0_both_passes_idempotent_without_a_double_minus.
Theorem C06_L0_formatting_the_written_tree_gives_the_same_bytes : forall c p,
  Fmt0.guard_free p = true -> Fmt0.format0 c (Fmt0.norm0 c p) = Fmt0.format0 c p.
Proof. exact Fmt0Idem.format0_of_its_tree. Qed.
Print Assumptions C06_L0_formatting_the_written_tree_gives_the_same_bytes.
Theorem C06_L0_idempotence_premise_is_met : Fmt0.guard_free Fmt0Idem.idem_example = true /\ Fmt0.guard_free Fmt0Proof.witness_not_idempotent = false
  /\ Fmt0.norm0 Fmt0Proof.cfg_witness Fmt0Idem.idem_example <> Fmt0Idem.idem_example.
Proof. exact Fmt0Idem.guard_free_example. Qed.
Print Assumptions C06_L0_idempotence_premise_is_met.
(* the parenthesis rule itself (Parens.fmt_single, the model of C02 on every operator shape, type assertions included) *)
Theorem C06_parenthesis_rule_idempotent_without_a_double_minus : forall e c,
  Parens.gf e = true -> Parens.fmt_single c (Parens.fmt_single c e) = Parens.fmt_single c e.
Proof. exact ParensIdem.fmt_single_idempotent. Qed.
Print Assumptions C06_parenthesis_rule_idempotent_without_a_double_minus.
(* Tie 1 for the parentheses around conditions (stmt.rs remove_condition_parentheses, regenerated on every run): one pass leaves no
   removable layer, so a second pass finds nothing to do - whatever the two comment oracles answer; and on L0 trees the
   regenerated function strips exactly the layers Fmt0.ncond strips *)
From SV Require FmAstCond CondProof.
From SVgen Require CondParens.
Theorem C06_regenerated_condition_rule_idempotent : forall pc hl e,
  CondParens.remove_condition_parentheses pc hl (CondParens.remove_condition_parentheses pc hl e) = CondParens.remove_condition_parentheses pc hl e.
Proof. exact CondProof.rcp_idempotent. Qed.
Print Assumptions C06_regenerated_condition_rule_idempotent.
Theorem C06_regenerated_condition_rule_leaves_no_removable_layer : forall pc hl e,
  CondProof.removable_layer pc hl (CondParens.remove_condition_parentheses pc hl e) = false.
Proof. exact CondProof.rcp_leaves_no_removable_layer. Qed.
Print Assumptions C06_regenerated_condition_rule_leaves_no_removable_layer.
Theorem C06_L0_condition_rule_is_the_regenerated_one : forall code e,
  Fmt0.ncond e = Fmt0.nexp Parens.Std (Fmt0Idem.core e) /\
  CondParens.remove_condition_parentheses (fun _ => false) (fun _ _ => false) (CondProof.emb code e) = CondProof.emb code (Fmt0Idem.core e) /\
  Fmt0Idem.isparen (Fmt0Idem.core e) = false.
Proof. exact CondProof.ncond_is_the_rule_after_the_regenerated_stripping. Qed.
Print Assumptions C06_L0_condition_rule_is_the_regenerated_one.
(* what format0 writes never holds such a minus - whatever it was given -, so formatting twice ALWAYS reaches a fixed point: a third pass
   changes nothing, on every program and configuration (the listed finding costs exactly one extra pass) *)
Theorem C06_L0_output_meets_the_idempotence_premise : forall c p, Fmt0.guard_free (Fmt0.norm0 c p) = true.
Proof. exact Fmt0Idem.guard_free_norm0. Qed.
Print Assumptions C06_L0_output_meets_the_idempotence_premise.
Theorem C06_L0_second_pass_is_a_fixed_point : forall c p, Fmt0.norm0 c (Fmt0.norm0 c (Fmt0.norm0 c p)) = Fmt0.norm0 c (Fmt0.norm0 c p).
Proof. exact Fmt0Idem.norm0_second_pass_is_a_fixed_point. Qed.
Print Assumptions C06_L0_second_pass_is_a_fixed_point.
Theorem C06_parenthesis_rule_second_pass_is_a_fixed_point : forall e c,
  Parens.fmt_single c (Parens.fmt_single c (Parens.fmt_single c e)) = Parens.fmt_single c (Parens.fmt_single c e).
Proof. exact ParensIdem.fmt_single_second_pass_is_a_fixed_point. Qed.
Print Assumptions C06_parenthesis_rule_second_pass_is_a_fixed_point.
