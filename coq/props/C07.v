(* C07 - the formatter is total.  Statements only.  PARTIAL: this property lives mostly in the runtime (panics, stack
   depth, wall time), which a Gallina model cannot exhibit.  Proved: the shape of the pipeline (success exactly for
   parseable text) and the cost recurrences of trial formatting - including the exponential family that is a listed
   known finding.  Everything else is validated by running the code under catch_unwind with a time budget. *)
From Coq Require Import Arith.
From SV Require Cost.
Theorem C07_parse_error_iff_unparseable : forall src ast parse fmt print p,
  Cost.format_code src ast parse fmt print p = Cost.ParseError src <-> parse p = None.
Proof. exact Cost.parse_error_iff. Qed.
Print Assumptions C07_parse_error_iff_unparseable.
Theorem C07_success_only_for_parsed_text : forall src ast parse fmt print p s,
  Cost.format_code src ast parse fmt print p = Cost.Formatted src s -> exists a, parse p = Some a /\ s = print (fmt a).
Proof. exact Cost.success_only_if_parsed. Qed.
Print Assumptions C07_success_only_for_parsed_text.
Theorem C07_nested_return_values_cost_exponential_refutes_any_polynomial_bound : forall k, 2 ^ k <= Cost.trial_cost k.
Proof. exact Cost.trial_cost_exponential. Qed.
Print Assumptions C07_nested_return_values_cost_exponential_refutes_any_polynomial_bound.
Theorem C07_trial_cost_closed_form : forall k, 2 * Cost.trial_cost k + 1 = 3 ^ (S k).
Proof. exact Cost.trial_cost_closed_form. Qed.
Print Assumptions C07_trial_cost_closed_form.
Theorem C07_argument_heuristic_alone_is_linear_per_level : forall depth, Cost.args_cost depth = 2 * depth + 1.
Proof. exact Cost.args_cost_linear. Qed.
Print Assumptions C07_argument_heuristic_alone_is_linear_per_level.
