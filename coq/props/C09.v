(* C09 - range formatting touches only statements inside the range.  Statements only (same block model as C08). *)
From Coq Require Import List.
From SV Require BlockRule.
Import ListNotations BlockRule.
Theorem C09_out_of_range_statement_only_visited_inside : forall S Semi mode_of fmt inner strip_first needs_semi fmt_semi fresh_semi move_trailing absorb l first i s semi,
  nth_error l i = Some (s, semi) -> mode_of s = NotInRange ->
  nth_error (go S Semi mode_of fmt inner strip_first needs_semi fmt_semi fresh_semi move_trailing absorb first l) i = Some (inner s, semi).
Proof. exact out_of_range_shallow. Qed.
Print Assumptions C09_out_of_range_statement_only_visited_inside.
(* a statement inside the range comes out as in a whole-file run: its result depends only on itself, its semicolon,
   its position and the next INPUT statement - not on whether its neighbours are formatted *)
Theorem C09_in_range_as_whole_file : forall S Semi mode_a mode_b fmt inner strip_first needs_semi fmt_semi fresh_semi move_trailing absorb l first i s semi,
  nth_error l i = Some (s, semi) -> mode_a s = Normal -> mode_b s = Normal ->
  nth_error (go S Semi mode_a fmt inner strip_first needs_semi fmt_semi fresh_semi move_trailing absorb first l) i =
  nth_error (go S Semi mode_b fmt inner strip_first needs_semi fmt_semi fresh_semi move_trailing absorb first l) i.
Proof. exact normal_mode_independent. Qed.
Print Assumptions C09_in_range_as_whole_file.
Theorem C09_statement_count_kept : forall S Semi mode_of fmt inner strip_first needs_semi fmt_semi fresh_semi move_trailing absorb l first,
  length (go S Semi mode_of fmt inner strip_first needs_semi fmt_semi fresh_semi move_trailing absorb first l) = length l.
Proof. exact go_length. Qed.
Print Assumptions C09_statement_count_kept.
