//! The semantic normal form N of a program (C02), computed from full_moon's AST and independent of StyLua's own
//! --verify comparison: the non-trivia tokens in visiting order, with brackets around every statement, expression,
//! call-argument list, suffix and table field; parentheses, semicolons and commas dropped (so redundant parentheses,
//! separators, trailing commas and the f"s" / f{t} call sugar disappear); a parenthesised call or `...` keeps a
//! truncation marker, except as a whole if/while/until condition where only one value is used anyway.
//! Literals are emitted raw (`S:q:depth:hex`, `N:hex`); the Coq judge compares their denotations.
use crate::common::*;
use full_moon::ast::luau::{ElseIfExpression, IfExpression};
use full_moon::ast::*;
use full_moon::tokenizer::{Symbol, Token, TokenType};
use full_moon::visitors::Visitor;

pub struct Nf { pub out: Vec<String>, conditions: Vec<*const Expression> }
fn is_multi(e: &Expression) -> bool {
    match e {
        Expression::FunctionCall(_) => true,
        Expression::Symbol(t) => matches!(t.token_type(), TokenType::Symbol { symbol: Symbol::Ellipsis }),
        Expression::Parentheses { .. } => false,
        _ => false,
    }
}
fn strip_parens(e: &Expression) -> &Expression { match e { Expression::Parentheses { expression, .. } => strip_parens(expression), _ => e } }
impl Nf {
    pub fn new() -> Self { Nf { out: vec![], conditions: vec![] } }
    pub fn of(ast: &Ast) -> String { let mut n = Nf::new(); n.visit_ast(ast); n.out.join(" ") }
}
impl Visitor for Nf {
    fn visit_if(&mut self, n: &If) { self.conditions.push(n.condition() as *const _); }
    fn visit_else_if(&mut self, n: &ElseIf) { self.conditions.push(n.condition() as *const _); }
    fn visit_while(&mut self, n: &While) { self.conditions.push(n.condition() as *const _); }
    fn visit_repeat(&mut self, n: &Repeat) { self.conditions.push(n.until() as *const _); }
    fn visit_if_expression(&mut self, n: &IfExpression) { self.conditions.push(n.condition() as *const _); }
    fn visit_else_if_expression(&mut self, n: &ElseIfExpression) { self.conditions.push(n.condition() as *const _); }
    fn visit_stmt(&mut self, _: &Stmt) { self.out.push("{S".into()); }
    fn visit_stmt_end(&mut self, _: &Stmt) { self.out.push("}".into()); }
    fn visit_last_stmt(&mut self, _: &LastStmt) { self.out.push("{L".into()); }
    fn visit_last_stmt_end(&mut self, _: &LastStmt) { self.out.push("}".into()); }
    fn visit_expression(&mut self, e: &Expression) {
        match e {
            Expression::Parentheses { expression, .. } => {
                // only the innermost pair around a multi-valued expression means something
                let is_cond = self.conditions.iter().any(|p| std::ptr::eq(*p, e as *const _));
                if is_multi(expression) && !is_cond { self.out.push("{TRUNC".into()); } else { self.out.push("{P".into()); }
                // ((f())) as a condition: the pairs directly inside are as irrelevant as the outer one
                if is_cond { if let Expression::Parentheses { .. } = &**expression { self.conditions.push(&**expression as *const _); } }
            }
            Expression::BinaryOperator { .. } => self.out.push("{B".into()),
            Expression::UnaryOperator { .. } => self.out.push("{U".into()),
            _ => self.out.push("{E".into()),
        }
    }
    fn visit_expression_end(&mut self, _: &Expression) { self.out.push("}".into()); }
    fn visit_function_args(&mut self, _: &FunctionArgs) { self.out.push("{A".into()); }
    fn visit_function_args_end(&mut self, _: &FunctionArgs) { self.out.push("}".into()); }
    fn visit_suffix(&mut self, _: &Suffix) { self.out.push("{X".into()); }
    fn visit_suffix_end(&mut self, _: &Suffix) { self.out.push("}".into()); }
    fn visit_field(&mut self, _: &Field) { self.out.push("{F".into()); }
    fn visit_field_end(&mut self, _: &Field) { self.out.push("}".into()); }
    fn visit_symbol(&mut self, t: &Token) {
        if let TokenType::Symbol { symbol } = t.token_type() {
            let s = symbol.to_string();
            if s != "(" && s != ")" && s != ";" && s != "," { self.out.push(format!("W:{}", hex(s.as_bytes()))); }
        }
    }
    fn visit_identifier(&mut self, t: &Token) {
        if let TokenType::Identifier { identifier } = t.token_type() { self.out.push(format!("W:{}", hex(identifier.as_bytes()))); }
    }
    fn visit_number(&mut self, t: &Token) {
        if let TokenType::Number { text } = t.token_type() { self.out.push(format!("N:{}", hex(text.as_bytes()))); }
    }
    fn visit_string_literal(&mut self, t: &Token) {
        if let TokenType::StringLiteral { literal, multi_line_depth, quote_type } = t.token_type() {
            self.out.push(format!("S:{}:{}:{}", quote_letter(quote_type), multi_line_depth, hex(literal.as_bytes())));
        }
    }
    fn visit_interpolated_string_segment(&mut self, t: &Token) {
        if let TokenType::InterpolatedString { literal, .. } = t.token_type() { self.out.push(format!("I:{}", hex(literal.as_bytes()))); }
    }
}
/// `{P x }` brackets (redundant parentheses) are erased afterwards, textually: a `{P` ... `}` pair adds nothing.
/// In a condition the outermost pair(s) around a multi-valued expression are `{P` too.
pub fn normalise(nf: &str) -> String {
    let toks: Vec<&str> = nf.split(' ').collect();
    let mut out: Vec<&str> = vec![];
    let mut stack: Vec<bool> = vec![]; // true = this bracket is erased
    for t in toks {
        if t.starts_with('{') {
            let erased = t == "{P";
            stack.push(erased);
            if !erased { out.push(t); }
        } else if t == "}" {
            if !stack.pop().unwrap_or(false) { out.push(t); }
        } else { out.push(t); }
    }
    // a parenthesised expression directly inside an expression bracket leaves `{E {B ... } }`-style nesting that
    // differs from the unparenthesised `{B ... }`: collapse `{E` brackets, which carry no information of their own
    let mut out2: Vec<&str> = vec![]; let mut st2: Vec<bool> = vec![];
    for t in out {
        if t.starts_with('{') { let e = t == "{E"; st2.push(e); if !e { out2.push(t); } }
        else if t == "}" { if !st2.pop().unwrap_or(false) { out2.push(t); } }
        else { out2.push(t); }
    }
    out2.join(" ")
}
pub fn nf_of_source(src: &str, v: stylua_lib::LuaVersion) -> Option<String> {
    let _ = strip_parens;
    full_moon::parse_fallible(src, v.into()).into_result().ok().map(|a| normalise(&Nf::of(&a)))
}
