"""C14 - a failing file is left untouched and does not stop the others (DESIGN 5/C14)."""
from . import c13
KINDS = ["formatted", "unformatted", "unformatted", "unparseable", "unreadable", "verifyfail"]
def run(res): return c13.run(res, prop="C14", mode="write", kinds=KINDS)
def replay(payload): return c13.replay(payload, mode="write")
