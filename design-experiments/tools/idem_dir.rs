use stylua_lib::*;
fn main() {
    let args: Vec<String> = std::env::args().collect();
    let width: usize = args[1].parse().unwrap_or(usize::MAX);
    let (mut n, mut bad, mut reparse) = (0, 0, 0);
    for path in &args[2..] {
        let src = match std::fs::read_to_string(path) { Ok(s) => s, Err(_) => continue };
        let mut cfg = Config::default(); cfg.syntax = LuaVersion::Lua51; cfg.column_width = width;
        let out = match format_code(&src, cfg, None, OutputVerification::None) { Ok(o) => o, Err(_) => continue };
        n += 1;
        match format_code(&out, cfg, None, OutputVerification::None) {
            Err(_) => { reparse += 1; if reparse <= 3 { println!("REPARSE-FAIL {}", path); } }
            Ok(o2) => if o2 != out { bad += 1; if bad <= 5 { 
                let a: Vec<&str> = out.lines().collect(); let b: Vec<&str> = o2.lines().collect();
                let mut i = 0; while i < a.len() && i < b.len() && a[i] == b[i] { i += 1; }
                println!("NONIDEM {} line {}\n  1| {:?}\n  2| {:?}", path, i+1, a.get(i), b.get(i)); } }
        }
    }
    println!("width={} formatted={} nonidem={} reparse_fail={}", width, n, bad, reparse);
}
