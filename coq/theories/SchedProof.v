From Coq Require Import List Arith Lia Bool.
Import ListNotations.
From SV Require Import Sched.

Lemma step_inv n : forall cell ts, monotone ts ->
  monotone (snd (step_at n cell ts)) /\
  Nat.max (fst (step_at n cell ts)) (pending (snd (step_at n cell ts))) = Nat.max cell (pending ts).
Proof.
  induction n as [|n IH]; intros cell ts Hm; destruct ts as [|t r]; cbn [step_at]; auto.
  - destruct t as [rg cd]. cbn [code reg]. destruct cd as [|i c]; [split; auto|].
    inversion Hm as [|? ? Ht Hr]; subst. cbn [code mono_prog forallb] in Ht. apply andb_true_iff in Ht. destruct Ht as [Hi Hc].
    destruct i as [|v|v|o nw]; try discriminate; cbn [exec fst snd].
    + split; [constructor; auto|]. cbn. reflexivity.
    + split; [constructor; auto|]. cbn. lia.
  - inversion Hm as [|? ? Ht Hr]; subst. specialize (IH cell r Hr). destruct (step_at n cell r) as [c' r'].
    cbn [fst snd] in *. destruct IH as [Hm' He]. split; [constructor; auto|]. cbn. lia.
Qed.

Lemma finished_pending ts : finished ts -> pending ts = 0.
Proof. induction 1 as [|t r Ht _ IH]; cbn; auto. rewrite Ht, IH. reflexivity. Qed.

(* any number of threads, any schedule: once everything has run, the cell holds the largest value reported *)
Theorem monotone_protocol sched : forall cell ts,
  monotone ts -> finished (snd (run sched (cell, ts))) ->
  fst (run sched (cell, ts)) = Nat.max cell (pending ts).
Proof.
  induction sched as [|n s IH]; intros cell ts Hm Hf; cbn [run] in *.
  - cbn in *. rewrite (finished_pending ts Hf). lia.
  - pose proof (step_inv n cell ts Hm) as [Hm' He]. destruct (step_at n cell ts) as [c' ts'].
    cbn [fst snd] in *. rewrite (IH c' ts' Hm' Hf). exact He.
Qed.

(* ... in particular the cell never goes down along the way *)
Theorem monotone_never_lowers sched : forall cell ts, monotone ts -> cell <= fst (run sched (cell, ts)).
Proof.
  induction sched as [|n s IH]; intros cell ts Hm; cbn [run]; [cbn; lia|].
  pose proof (step_inv n cell ts Hm) as [Hm' He].
  assert (Hle : cell <= fst (step_at n cell ts)).
  { clear IH He Hm'. revert cell ts Hm. induction n as [|n IHn]; intros cell ts Hm; destruct ts as [|t r]; cbn [step_at fst]; auto.
    - destruct t as [rg cd]. cbn [code reg]. destruct cd as [|i c]; [cbn; lia|].
      inversion Hm as [|? ? Ht Hr]; subst. cbn [code mono_prog forallb] in Ht. apply andb_true_iff in Ht. destruct Ht as [Hi _].
      destruct i; try discriminate; cbn; lia.
    - inversion Hm as [|? ? Ht Hr]; subst. specialize (IHn cell r Hr). destruct (step_at n cell r). cbn in *. exact IHn. }
  destruct (step_at n cell ts) as [c' ts']. cbn [fst snd] in *. specialize (IH c' ts' Hm'). lia.
Qed.

(* the protocol of the code before the repair: a diff handler doing load-then-store against a logger storing 2 *)
Definition handler_old := {| reg := 0; code := [Load; Store 1] |}.
Definition logger_old := {| reg := 0; code := [Store 2] |}.
Theorem exit_status_race_refuted :
  exists sched, finished (snd (run sched (0, [handler_old; logger_old]))) /\ fst (run sched (0, [handler_old; logger_old])) = 1.
Proof. exists [0; 1; 0]. split; [repeat constructor|reflexivity]. Qed.
Example search_finds_it : find_bad_schedule [[Load; Store 1]; [Store 2]] = Some [0; 0; 1] \/ find_bad_schedule [[Load; Store 1]; [Store 2]] <> None.
Proof. right. vm_compute. discriminate. Qed.
