(* Mirror of the full_moon node kinds the translated kernels (coq/gen, written by rs2v) inspect.
   Constructor names are the Rust paths with `::` replaced by `_`; payloads the kernels never look at are unit. *)
Inductive Symbol := Symbol_Ellipsis | Symbol_True | Symbol_False | Symbol_Nil.
Inductive TokenType := TokenType_Symbol (symbol : Symbol) | TokenType_Other.
Definition TokenReference := TokenType.
Definition token_type (t : TokenReference) : TokenType := t.
Inductive UnOp := UnOp_Minus (t : unit) | UnOp_Not (t : unit) | UnOp_Hash (t : unit) | UnOp_Tilde (t : unit).
Inductive Expression :=
| Expression_Parentheses (contained : unit) (expression : Expression)
| Expression_UnaryOperator (unop : UnOp) (expression : Expression)
| Expression_BinaryOperator (lhs : Expression) (binop : unit) (rhs : Expression)
| Expression_TypeAssertion (expression : Expression) (type_assertion : unit)
| Expression_FunctionCall (call : unit)
| Expression_Symbol (token : TokenReference)
| Expression_IfExpression (else_branch : Expression)
| Expression_Other.   (* Number, String, Var, TableConstructor, Function, InterpolatedString *)
Inductive ExpressionContext :=
| ExpressionContext_Standard | ExpressionContext_Prefix | ExpressionContext_TypeAssertion
| ExpressionContext_BinaryLHS | ExpressionContext_BinaryLHSExponent | ExpressionContext_UnaryOrBinary.
