(* Tie 1: the kernel generated from /repo's check_excess_parentheses by rs2v computes the hand-written [check]
   on the image of the model's expressions.  Re-proved on every run against the regenerated SVgen.CheckExcess. *)
From Coq Require Import List Bool.
From SV Require Import FmAst Expr Parens.
From SVgen Require Import CheckExcess.

Definition embed_uop (u : uop) : UnOp :=
  match u with Neg => UnOp_Minus tt | Not => UnOp_Not tt | Len => UnOp_Hash tt | BNot => UnOp_Tilde tt end.
Fixpoint embed (e : expr) : Expression :=
  match e with
  | Atom => Expression_Other
  | Multi => Expression_FunctionCall tt
  | Paren x => Expression_Parentheses tt (embed x)
  | Un u x => Expression_UnaryOperator (embed_uop u) (embed x)
  | Bin _ l r => Expression_BinaryOperator (embed l) tt (embed r)
  | Assert x => Expression_TypeAssertion (embed x) tt
  | IfE x => Expression_IfExpression (embed x)
  end.
Definition embed_ctx (c : ctx) : ExpressionContext :=
  match c with
  | Std => ExpressionContext_Standard | Prefix => ExpressionContext_Prefix | TypeAssertion => ExpressionContext_TypeAssertion
  | BL => ExpressionContext_BinaryLHS | BLE => ExpressionContext_BinaryLHSExponent | UB => ExpressionContext_UnaryOrBinary
  end.

Lemma generated_check_is_model : forall e c, check_excess_parentheses (embed e) (embed_ctx c) = check e c.
Proof.
  induction e as [| |x IH|u x IH|b l IHl r IHr|x IH|x IH]; intros c; try (destruct c; reflexivity).
  cbn [embed check_excess_parentheses check]. destruct c, u; cbn; try reflexivity;
    first [exact (IH Std)|exact (IH Prefix)|exact (IH TypeAssertion)|exact (IH BL)|exact (IH BLE)|exact (IH UB)].
Qed.
(* the other multi-valued and single-valued leaves of full_moon's Expression *)
Lemma generated_check_leaves : forall c,
  check_excess_parentheses (Expression_Symbol (TokenType_Symbol Symbol_Ellipsis)) c = false /\
  check_excess_parentheses (Expression_Symbol (TokenType_Symbol Symbol_Nil)) c = true /\
  check_excess_parentheses (Expression_Symbol (TokenType_Symbol Symbol_True)) c = true /\
  check_excess_parentheses (Expression_Symbol (TokenType_Symbol Symbol_False)) c = true /\
  check_excess_parentheses (Expression_FunctionCall tt) c = false.
Proof. intros c. repeat split; destruct c; reflexivity. Qed.
