"""C13 - `--check` never writes and its exit status tells the truth (DESIGN 5/C13)."""
import random
from .clitree import *
from . import c05

KINDS = ["formatted", "formatted", "unformatted", "unformatted", "unparseable", "unreadable", "verifyfail"]
MODE = "check"
PROP = "C13"

def run(res, prop=PROP, mode=MODE, kinds=None):
    kinds = list(kinds or KINDS)
    t_ok, t_log = c05.rs2v("exit_ops")
    proof = proof_stage(res, prop, extra_obligations=2) if t_ok else dict(ok=False, discharged=0, log=t_log, broken_at="rs2v: " + t_log[-300:])
    if not t_ok: res.coverage.update(obligations=2, discharged=0, checker_cmd="rs2v", trusted_base=list(TRUSTED_BASE))
    build_ml(); build_cli()
    if mode == "write" and immutable_supported(): kinds.append("readonly")
    rng = random.Random(res.seed * 104729 + (13 if mode == "check" else 14))
    n = 160 if res.tier == "quick" else 2500
    scs = [gen_scenario(rng, "s%04d" % i, mode, kinds) for i in range(n)]
    # corpus of regressions first: every kind alone, and error + diff together in both argument orders
    fixed = []
    for i, k in enumerate(kinds):
        fixed.append(dict(id="k%d" % i, mode=mode, files=[("f0.lua", k)], args=["f0.lua"], extra=(["--verify"] if k == "verifyfail" else []) + (["--check"] if mode == "check" else [])))
    for i, order in enumerate([["m.lua", "f1.lua"], ["f1.lua", "m.lua"]]):
        fixed.append(dict(id="e%d" % i, mode=mode, files=[("f1.lua", "unformatted"), ("m.lua", "missing")], args=order, extra=(["--check"] if mode == "check" else [])))
    scs = fixed + scs
    contents = set()
    for sc in scs:
        for rel, k in sc["files"]:
            if k != "missing": contents.add(CONTENT[k](int("".join(ch for ch in os.path.basename(rel) if ch.isdigit()) or 0)))
    fmt_of = library_formatted(contents)
    results = pmap(lambda sc: run_scenario(sc, fmt_of), scs)
    lines = [l for r, _ in results for l in r]
    ok, tot, bads, samples, err = judge(lines)
    tie_ok = ok and not bads and tot.get("scenarios") == len(scs)
    if t_ok and proof["ok"]: res.coverage["discharged"] = proof["discharged"] + 1 + (1 if tie_ok else 0)
    formats = {}
    for sc in scs:
        f = next((a for a in sc["extra"] if a.startswith("--output-format")), "(default)" if mode == "check" else "write")
        formats[f] = formats.get(f, 0) + 1
    res.coverage.update(
        evaluations=tot.get("scenarios", 0), distinct_nontrivial=tot.get("nontrivial", 0),
        rule="seeded random directory trees (1-6 files in nested directories, outcome of each file drawn from %s, optional missing path argument; arguments as directory, explicit list or both, shuffled; "
             "--num-threads in {1,2,3,4,8,16}%s) preceded by a fixed regression set (each kind alone, error + diff in both argument orders); every scenario is generated from its own PRNG draw so ids are distinct; "
             "non-trivial = at least one file is not already formatted" % (sorted(set(kinds)), "; all four output formats" if mode == "check" else ""),
        samples=samples or ["-"], input_distribution=dict(tot, formats=formats),
        kernels_translated=["src/cli/main.rs :: EXIT_CODE accesses -> coq/gen/ExitOps.v (rs2v)"],
        correspondence="the extracted CliModel.run gives the expected exit status, final file contents (hash) and set of files with a diff; compared with the binary's exit status, bytes and mtime of every file, and printed diffs")
    res.assumptions = ["what the library does with each file (formatted / different text / error) is an oracle of the process model; the formatted text is obtained from the same binary through stdin",
                       "touching is observed through bytes and mtime (atime / inotify are not observed); write atomicity under crashes is outside the model",
                       "permission-based failures cannot be produced as root; read-only files use the immutable attribute when the file system supports it"]
    # a known class outside the generated scenarios (they leave the environment alone): the exit status 2 is set by the logger's format
    # closure, so a log filter that switches error records off switches the status off too.  One witness; listed -> KNOWN-FINDING line,
    # reproducing and not listed -> violation, no longer reproducing -> nothing.
    d = scratch("c13env")
    try:
        open(os.path.join(d, "broken.lua"), "w").write("local x = = 1\n")
        code, _, _ = stylua((["--check"] if mode == "check" else []) + ["broken.lua"], d, env_extra={"STYLUA_LOG": "stylua=off"})
        if code != 2:
            kf = [e for e in known_findings(prop) if e.get("id") == "F-%s-status-through-logger" % prop]
            if kf: res.known.append(kf[0]["what"])
            else:
                res.violation(dict(kind="input", check="exit-status-with-log-filter", cli=dict(scenario=dict(id="env", mode=mode, files=[("broken.lua", "unparseable")], args=["broken.lua"], extra=(["--check"] if mode == "check" else []), env={"STYLUA_LOG": "stylua=off"}), contents={}),
                                   observed="exit status %d" % code, expected="exit status 2 for a file that does not parse, whatever STYLUA_LOG says"))
    finally:
        cleanup(d)
    if not (t_ok and proof["ok"] and tie_ok):
        if bads:
            seen = set()
            by_id = {sc["id"]: sc for sc in scs}
            for l in bads:
                w = l.split()
                key = w[1].split(":")[0]
                if key in seen or len(seen) >= 4: continue
                seen.add(key)
                sc = by_id.get(w[2], {})
                res.violation(dict(kind="input", check=w[1], cli=dict(scenario=sc, contents={k: CONTENT[k](0).decode("latin1") for k in CONTENT}), expected="CliModel.run: status, file contents, diffs (%s theorems)" % prop))
        else:
            res.violation(dict(kind="obligation", obligation=dict(theorem_or_kernel=proof.get("broken_at", "correspondence"), log=(proof.get("log", "")[-2500:] or err[-1000:]))), no_input=True)
    return res

def replay(payload, mode=MODE):
    build_ml(); build_cli()
    sc = payload["cli"]["scenario"]
    sc["files"] = [tuple(x) for x in sc["files"]]
    contents = set(CONTENT[k](int("".join(ch for ch in os.path.basename(rel) if ch.isdigit()) or 0)) for rel, k in sc["files"] if k != "missing")
    fmt_of = library_formatted(contents)
    lines, obs = run_scenario(sc, fmt_of)
    ok, tot, bads, samples, err = judge(lines)
    print("\n".join(lines)); print("\n".join(bads)); print(tot)
    return 1 if bads or not ok else 0
