(* Tie 1 for the parentheses around conditions: the function generated from /repo's remove_condition_parentheses
   (src/formatters/stmt.rs) by rs2v, specified, and linked to the L0 model's [ncond].  Re-proved on every run against the
   regenerated SVgen.CondParens.  What the function asks about comments it asks through two oracles, over which the theorems
   quantify. *)
From Coq Require Import List Bool.
From SV Require Import FmAstCond Fmt0 Fmt0Idem.
From SVgen Require Import CondParens.

Section Spec.
Variable pc : ContainedSpan -> bool.
Variable hl : TokenReference -> CommentSearch -> bool.
Notation rcp := (remove_condition_parentheses pc hl).
(* a layer the function may remove: no comment directly inside it and none in front of its opening parenthesis *)
Definition removable (s : ContainedSpan) : bool := negb (pc s) && negb (hl (fst (tokens s)) CommentSearch_All).
Definition removable_layer (e : Expression) : bool := match e with Expression_Parentheses s _ => removable s | _ => false end.
(* what is left has no removable layer on the outside: one pass removes them all (before the repair D42 it removed one) *)
Theorem rcp_leaves_no_removable_layer : forall e, removable_layer (rcp e) = false.
Proof.
  induction e as [s x IH|n]; [|reflexivity]. cbn [remove_condition_parentheses].
  fold (removable s). destruct (removable s) eqn:R; [exact IH|]. cbn [removable_layer]. exact R.
Qed.
Theorem rcp_fixed_without_removable_layer : forall e, removable_layer e = false -> rcp e = e.
Proof. intros [s x|n] H; [|reflexivity]. cbn [remove_condition_parentheses removable_layer] in *. fold (removable s). rewrite H. reflexivity. Qed.
Theorem rcp_idempotent : forall e, rcp (rcp e) = rcp e.
Proof. intros e. apply rcp_fixed_without_removable_layer. apply rcp_leaves_no_removable_layer. Qed.
(* only parentheses go *)
Fixpoint inside (e : Expression) : Expression := match e with Expression_Parentheses _ x => inside x | _ => e end.
Theorem rcp_removes_parentheses_only : forall e, inside (rcp e) = inside e.
Proof.
  induction e as [s x IH|n]; [|reflexivity]. cbn [remove_condition_parentheses]. fold (removable s).
  destruct (removable s); [exact IH|reflexivity].
Qed.
(* a layer with a comment stays, with everything inside it *)
Theorem rcp_keeps_a_layer_with_comments : forall s x, removable s = false -> rcp (Expression_Parentheses s x) = Expression_Parentheses s x.
Proof. intros s x H. apply rcp_fixed_without_removable_layer. exact H. Qed.
End Spec.

(* ---------- the L0 model's rule is this one ---------- *)
(* L0 has no comments inside expressions outside tables: both oracles answer no.  The image of an L0 expression: its layers of
   parentheses, then a leaf named by any numbering of the other expressions. *)
Section L0.
Variable code : exp -> nat.
Definition span0 : ContainedSpan := {| tokens := (mkTok 0, mkTok 0) |}.
Fixpoint emb (e : exp) : Expression := match e with EParen x => Expression_Parentheses span0 (emb x) | _ => Expression_Other (code e) end.
Notation rcp0 := (remove_condition_parentheses (fun _ => false) (fun _ _ => false)).
Theorem regenerated_rule_strips_every_layer : forall e, rcp0 (emb e) = emb (core e).
Proof. induction e; try reflexivity. cbn [emb remove_condition_parentheses core]. exact IHe. Qed.
(* ... which is what [ncond] does before it applies the ordinary rule *)
Theorem ncond_is_the_rule_after_the_regenerated_stripping : forall e, ncond e = nexp Parens.Std (core e) /\ rcp0 (emb e) = emb (core e) /\ isparen (core e) = false.
Proof. intros e. split; [apply ncond_core|]. split; [apply regenerated_rule_strips_every_layer|apply core_isparen]. Qed.
End L0.
