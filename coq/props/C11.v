(* C11 - quote_style, call_parentheses and space_after_function_names are honoured.  Statements only.
   Partial: the quote rule is proved on the kernel; call form and spacing are validated on the output's AST. *)
From Coq Require Import List.
From SV Require Quote QuoteMore.
Theorem C11_forced_quote_styles : forall s, QuoteMore.choose QuoteMore.ForceDouble s = Quote.QD /\ QuoteMore.choose QuoteMore.ForceSingle s = Quote.QS.
Proof. intros s. split; reflexivity. Qed.
Print Assumptions C11_forced_quote_styles.
Theorem C11_auto_prefers_unless_strictly_fewer_escapes : forall st s, st = QuoteMore.AutoDouble \/ st = QuoteMore.AutoSingle ->
  (QuoteMore.choose st s = QuoteMore.preferred st /\ QuoteMore.needs (QuoteMore.preferred st) s <= QuoteMore.needs (QuoteMore.other (QuoteMore.preferred st)) s) \/
  (QuoteMore.choose st s = QuoteMore.other (QuoteMore.preferred st) /\ QuoteMore.needs (QuoteMore.other (QuoteMore.preferred st)) s < QuoteMore.needs (QuoteMore.preferred st) s).
Proof. exact QuoteMore.choose_minimal. Qed.
Print Assumptions C11_auto_prefers_unless_strictly_fewer_escapes.
(* the rule can be read off the output: the rewriter neither adds nor removes quote characters *)
Theorem C11_rule_observable_on_output : forall q q' s, QuoteMore.needs q' (Quote.rewrite q s) = QuoteMore.needs q' s.
Proof. exact QuoteMore.needs_rewrite. Qed.
Print Assumptions C11_rule_observable_on_output.
From SV Require CallForm.
Theorem C11_call_form_obeys_the_rule : forall m f k o, CallForm.wf_call f k = true -> CallForm.form_ok m (CallForm.call_form m f k o) k o = true.
Proof. exact CallForm.call_form_obeys_rule. Qed.
Print Assumptions C11_call_form_obeys_the_rule.
Theorem C11_input_keeps_each_call_form : forall f k o, CallForm.call_form CallForm.Input f k o = f.
Proof. exact CallForm.input_keeps_form. Qed.
Print Assumptions C11_input_keeps_each_call_form.
Theorem C11_always_writes_parentheses : forall f k o, CallForm.call_form CallForm.Always f k o = CallForm.FParen.
Proof. exact CallForm.always_has_parentheses. Qed.
Print Assumptions C11_always_writes_parentheses.
Theorem C11_no_sugar_before_index_or_method : forall m f k, CallForm.wf_call f k = true -> m <> CallForm.Input -> CallForm.call_form m f k true = CallForm.FParen.
Proof. exact CallForm.sugar_only_when_nothing_follows. Qed.
Print Assumptions C11_no_sugar_before_index_or_method.
Theorem C11_space_exactly_where_the_option_names :  forall m,
  (CallForm.space_definition m = true <-> (m = CallForm.SAlways \/ m = CallForm.SDefinitions)) /\
  (CallForm.space_call m = true <-> (m = CallForm.SAlways \/ m = CallForm.SCalls)).
Proof. exact CallForm.space_exactly_where_named. Qed.
Print Assumptions C11_space_exactly_where_the_option_names.

(* the quote chooser the binary runs (regenerated from src/formatters/general.rs on every run) is the model of the
   quote rule above; it never reaches its unreachable!() *)
From SV Require FmAst QuoteChoiceProof.
From SVgen Require QuoteChoice.
Theorem C11_generated_quote_chooser_is_the_model : forall st lit,
  QuoteChoice.get_quote_to_use st lit = QuoteChoiceProof.quote_type_of (QuoteMore.choose (QuoteChoiceProof.style_of st) lit).
Proof. exact QuoteChoiceProof.generated_chooser_is_model. Qed.
Print Assumptions C11_generated_quote_chooser_is_the_model.
Theorem C11_quote_chooser_never_panics : forall st lit, QuoteChoice.get_quote_to_use st lit <> FmAst.StringLiteralQuoteType_Unreachable.
Proof. exact QuoteChoiceProof.unreachable_never_reached. Qed.
Print Assumptions C11_quote_chooser_never_panics.

(* the option switches the binary consults (src/context.rs, regenerated on every run) are the ones of the rule above *)
From SV Require CtxOptionsProof.
From SVgen Require CtxOptions.
Theorem C11_generated_blank_after_call_names : forall s,
  CtxOptionsProof.ws_text (CtxOptions.create_function_call_trivia s) = if CallForm.space_call (CtxOptionsProof.smode_of s) then (Lex.SP :: nil) else nil.
Proof. exact CtxOptionsProof.call_blank. Qed.
Print Assumptions C11_generated_blank_after_call_names.
Theorem C11_generated_blank_after_definition_names : forall s,
  CtxOptionsProof.ws_text (CtxOptions.create_function_definition_trivia s) = if CallForm.space_definition (CtxOptionsProof.smode_of s) then (Lex.SP :: nil) else nil.
Proof. exact CtxOptionsProof.definition_blank. Qed.
Print Assumptions C11_generated_blank_after_definition_names.
Theorem C11_generated_omission_switches : forall c,
  CtxOptions.should_omit_string_parens false c = CallForm.omit_string (CtxOptionsProof.cmode_of c) /\
  CtxOptions.should_omit_table_parens false c = CallForm.omit_table (CtxOptionsProof.cmode_of c).
Proof. intros c. split; [exact (CtxOptionsProof.omit_string_switch c) | exact (CtxOptionsProof.omit_table_switch c)]. Qed.
Print Assumptions C11_generated_omission_switches.

(* L0 - the whole-formatter model on a fragment of Lua 5.1 (Fmt0.v), tied to the binary byte for byte on every run under
   every call_parentheses and space_after_function_names value: in what format0 prints, EVERY call site - at any depth,
   in any statement - has the form the option asks for (CallForm.form_ok: parentheses under Always; none around a single
   string / table under None / NoSingleString / NoSingleTable unless an index or a method call follows; ...) *)
From Coq Require Import String.
From SV Require Fmt0 Fmt0Proof.
Theorem C11_L0_every_call_obeys_call_parentheses : forall c p,
  Fmt0.sall_b (Fmt0Proof.calls_ok (Fmt0.callp0 c) false) (Fmt0.norm0 c p) = true.
Proof. exact Fmt0Proof.format0_calls_obey_the_option. Qed.
Print Assumptions C11_L0_every_call_obeys_call_parentheses.
(* under Input the call-form pass prints every expression exactly as it would have been printed without it *)
Theorem C11_L0_input_keeps_every_call : forall c e o d, Fmt0.pexp c d (Fmt0.cexp CallForm.Input o e) = Fmt0.pexp c d e.
Proof. exact Fmt0Proof.cexp_input_prints_the_same. Qed.
Print Assumptions C11_L0_input_keeps_every_call.
(* the checker is not vacuous: it rejects `f("s")` under None, `f "s"` under Always, `f "s".x` under None *)
Local Open Scope string_scope.
Theorem C11_L0_checker_rejects_wrong_forms :
  Fmt0Proof.calls_ok CallForm.NoneM false (Fmt0.ECall (Fmt0.EName (Lex.str "f")) false (cons (Fmt0.EStr (Lex.str "s")) nil)) = false
  /\ Fmt0Proof.calls_ok CallForm.Always false (Fmt0.ECall (Fmt0.EName (Lex.str "f")) true (cons (Fmt0.EStr (Lex.str "s")) nil)) = false
  /\ Fmt0Proof.calls_ok CallForm.NoneM false (Fmt0.EField (Fmt0.ECall (Fmt0.EName (Lex.str "f")) true (cons (Fmt0.EStr (Lex.str "s")) nil)) (Lex.str "x")) = false.
Proof. exact Fmt0Proof.calls_ok_rejects. Qed.
Print Assumptions C11_L0_checker_rejects_wrong_forms.
(* space_after_function_names as a statement about the printed TOKENS of L0 (Fmt0Space.v): a scanner that knows nothing
   of the tree demands, at every `(` that opens call arguments (the last token before it, blanks aside, ends a value and
   no line break lies between), a blank in front exactly under Calls / Always, and at the `(` behind the name of a
   function header exactly under Definitions / Always; it accepts what format0 prints for EVERY program and
   configuration.  (By C01_L0_formatted_text_lexes_back these tokens are what the printed text lexes to.) *)
From SV Require Fmt0Space.
Theorem C11_L0_printed_tokens_obey_space_after_function_names : forall c p, Fmt0Space.scan c (Fmt0.pprog c (Fmt0.norm0 c p)) <> None.
Proof. exact Fmt0Space.format0_obeys_space_after_function_names. Qed.
Print Assumptions C11_L0_printed_tokens_obey_space_after_function_names.
(* the scanner is not vacuous: `f ()` under Never, `f()` under Calls, `function g()` under Definitions, `function g ()` under
   Calls, `(a)()` under Calls are rejected; `return (a)()` under Never is accepted *)
Theorem C11_L0_spacing_scanner_rejects_wrong_blanks :
  Fmt0Space.scan (Fmt0Space.cfg_of CallForm.SNever) (cons (Lex.TIdent (Lex.str "f")) (cons Fmt0.sp (cons (Fmt0.kw "(") (cons (Fmt0.kw ")") nil)))) = None
  /\ Fmt0Space.scan (Fmt0Space.cfg_of CallForm.SCalls) (cons (Lex.TIdent (Lex.str "f")) (cons (Fmt0.kw "(") (cons (Fmt0.kw ")") nil))) = None.
Proof. split; [exact (proj1 Fmt0Space.scanner_rejects)|exact (proj1 (proj2 Fmt0Space.scanner_rejects))]. Qed.
Print Assumptions C11_L0_spacing_scanner_rejects_wrong_blanks.
(* quote_style on L0: every quoted string token of what format0 prints - for every program and configuration - passes the judge that
   reads the output token alone: it carries the quote QuoteMore.choose picks for its own body (the forced quote; or the preferred one
   unless the other needs strictly fewer escapes, C11_auto_prefers_unless_strictly_fewer_escapes).  The same judge (extracted) runs
   on every string token of every output of the check. *)
From SV Require Fmt0Toks.
Theorem C11_L0_every_string_obeys_quote_style : forall c p,
  forallb (Fmt0.quote_ok (Fmt0.style0 c)) (Fmt0.pprog c (Fmt0.norm0 c p)) = true.
Proof. exact Fmt0Toks.format0_strings_obey_quote_style. Qed.
Print Assumptions C11_L0_every_string_obeys_quote_style.
Theorem C11_quote_judge_rejects_wrong_quotes :
  Fmt0.quote_ok QuoteMore.ForceDouble (Lex.TStr Lex.QSingle 0 (Lex.str "a")) = false /\ Fmt0.quote_ok QuoteMore.AutoDouble (Lex.TStr Lex.QSingle 0 (Lex.str "a")) = false /\
  Fmt0.quote_ok QuoteMore.AutoDouble (Lex.TStr Lex.QSingle 0 (Lex.str "say ""hi""")) = true /\ Fmt0.quote_ok QuoteMore.AutoDouble (Lex.TStr Lex.QDouble 0 (Lex.str "say \""hi\""")) = false /\
  Fmt0.quote_ok QuoteMore.AutoSingle (Lex.TStr Lex.QDouble 0 (Lex.str "a")) = false.
Proof. exact Fmt0Toks.quote_judge_rejects. Qed.
Print Assumptions C11_quote_judge_rejects_wrong_quotes.
