(* C11 on L0, space_after_function_names as a statement about the printed TOKENS: a scanner that knows nothing of the
   tree walks the token list; at every `(` that opens call arguments (the last token before it, blanks aside, ends a
   value: a name, a string, `)`, `]`, `}`, and no line break lies between) it demands a blank in front exactly when the
   option says Calls / Always, and at the `(` of a function header (the first one behind the keyword `function`, when a
   name precedes it) exactly when it says Definitions / Always.  Theorem: the scanner accepts what pprog prints, for EVERY tree and configuration. *)
From Coq Require Import List Ascii String Bool Arith.
Import ListNotations.
From SV Require Import Lex LexRender Expr Parens Quote QuoteMore Number CallForm Fmt0 Fmt0Proof.
Notation tok := Lex.tok (only parsing).

Inductive kind := KNl | KWs | KOpen | KClose | KFun | KVal | KOther.
Definition isval (k : kind) : bool := match k with KVal | KClose => true | _ => false end.
Definition has_lf (s : bytes) : bool := existsb (fun c => Ascii.eqb c LF) s.
Definition classify (t : tok) : kind :=
  match t with
  | TWs s => if has_lf s then KNl else KWs
  | TIdent _ | TStr _ _ _ => KVal
  | TSym s => if beqb s (str "(") then KOpen else if beqb s (str "function") then KFun
              else if beqb s (str ")") then KClose else if beqb s (str "]") || beqb s (str "}") then KVal else KOther
  | _ => KOther
  end.
(* the state: does the last token that is not a blank end a value (and no line break since); were there blanks since;
   are we in a function header whose `(` has not come yet (HName), or between the parentheses of its parameters (HPar:
   the `)` that closes them does not end a value) *)
Inductive hmode := HNo | HName | HPar.
Record sst := mk { pv : bool; gap : bool; hdr : hmode }.
Definition init : sst := mk false false HNo.
Section Scan.
Variables sc sd : bool.          (* a blank before the `(` of a call / of a function header *)
Definition step (s : sst) (t : tok) : option sst :=
  match classify t with
  | KNl => Some (mk false false (hdr s))
  | KWs => Some (mk (pv s) true (hdr s))
  | KFun => Some (mk false false HName)
  | KVal => Some (mk true false (hdr s))
  | KClose => match hdr s with HPar => Some (mk false false HNo) | h => Some (mk true false h) end
  | KOther => Some (mk false false (hdr s))
  | KOpen => if pv s && negb (Bool.eqb (gap s) (match hdr s with HName => sd | _ => sc end)) then None
             else Some (mk false false (match hdr s with HName => HPar | h => h end))
  end.
Fixpoint run (s : sst) (ts : list tok) : option sst :=
  match ts with [] => Some s | t :: r => match step s t with Some s' => run s' r | None => None end end.
Lemma run_app a b s : run s (a ++ b) = match run s a with Some s' => run s' b | None => None end.
Proof. revert s. induction a as [|t a IH]; intros s; [reflexivity|]. cbn [app run]. destruct (step s t); [apply IH|reflexivity]. Qed.

(* transitions between classes of states *)
Definition trans (P : sst -> Prop) (x : list tok) (Q : sst -> Prop) : Prop :=
  forall s, P s -> exists s', run s x = Some s' /\ Q s'.
Lemma trans_app P Q R x y : trans P x Q -> trans Q y R -> trans P (x ++ y) R.
Proof. intros H1 H2 s Hs. destruct (H1 s Hs) as (s1 & E1 & Q1). destruct (H2 s1 Q1) as (s2 & E2 & R2). exists s2. rewrite run_app, E1. auto. Qed.
Lemma trans_cons P Q R t y : trans P [t] Q -> trans Q y R -> trans P (t :: y) R.
Proof. intros H1 H2. apply (trans_app P Q R [t] y H1 H2). Qed.
Lemma trans_nil (P Q : sst -> Prop) : (forall s, P s -> Q s) -> trans P [] Q.
Proof. intros H s Hs. exists s. split; [reflexivity|apply H; exact Hs]. Qed.
Lemma trans_weak (P P' Q Q' : sst -> Prop) x : (forall s, P' s -> P s) -> (forall s, Q s -> Q' s) -> trans P x Q -> trans P' x Q'.
Proof. intros HP HQ H s Hs. destruct (H s (HP s Hs)) as (s' & E & Q1). exists s'. auto. Qed.

(* the classes: A - outside a header; O - outside a header and not behind a value; G - outside a header, no blank pending *)
Definition A (s : sst) : Prop := hdr s = HNo.
Definition O (s : sst) : Prop := hdr s = HNo /\ pv s = false.
Definition G (s : sst) : Prop := hdr s = HNo /\ gap s = false.
Lemma O_A s : O s -> A s. Proof. intros [H _]. exact H. Qed.
Lemma G_A s : G s -> A s. Proof. intros [H _]. exact H. Qed.
Definition OG (s : sst) : Prop := hdr s = HNo /\ pv s = false /\ gap s = false.
Lemma OG_O s : OG s -> O s. Proof. intros (H & P & _). split; assumption. Qed.
Lemma OG_G s : OG s -> G s. Proof. intros (H & _ & P). split; assumption. Qed.

Lemma t_other t : classify t = KOther -> trans A [t] OG.
Proof. intros C s Hs. exists (mk false false (hdr s)). cbn [run]. unfold step. rewrite C. split; [reflexivity|]. repeat split. exact Hs. Qed.
Lemma t_val t : isval (classify t) = true -> trans A [t] G.
Proof. intros C s Hs. unfold A in Hs. exists (mk true false HNo). cbn [run]. unfold step. destruct (classify t); try discriminate; rewrite Hs; (split; [reflexivity|split; reflexivity]). Qed.
Lemma t_ws_A t : classify t = KWs -> trans A [t] A.
Proof. intros C s Hs. exists (mk (pv s) true (hdr s)). cbn [run]. unfold step. rewrite C. split; [reflexivity|exact Hs]. Qed.
Lemma t_ws_O t : classify t = KWs -> trans O [t] O.
Proof. intros C s [Hs Ps]. exists (mk (pv s) true (hdr s)). cbn [run]. unfold step. rewrite C. split; [reflexivity|split; assumption]. Qed.
Lemma t_nl t : classify t = KNl -> trans A [t] OG.
Proof. intros C s Hs. exists (mk false false (hdr s)). cbn [run]. unfold step. rewrite C. split; [reflexivity|]. repeat split. exact Hs. Qed.
Lemma t_open_O : trans O [kw "("] OG.
Proof. intros s [Hs Ps]. exists (mk false false HNo). cbn [run]. unfold step. change (classify (kw "(")) with KOpen. rewrite Ps, Hs. split; [reflexivity|repeat split]. Qed.

Lemma c_kw_other s : (if beqb (str s) (str "(") then false else if beqb (str s) (str "function") then false
                      else if beqb (str s) (str ")") then false else if beqb (str s) (str "]") || beqb (str s) (str "}") then false else true) = true ->
  classify (kw s) = KOther.
Proof. unfold kw, classify. destruct (beqb (str s) (str "(")); [discriminate|]. destruct (beqb (str s) (str "function")); [discriminate|].
  destruct (beqb (str s) (str ")")); [discriminate|]. destruct (beqb (str s) (str "]") || beqb (str s) (str "}")); [discriminate|reflexivity]. Qed.
Lemma c_sp : classify sp = KWs. Proof. reflexivity. Qed.
Lemma cl_eol c : classify (eol c) = KNl. Proof. unfold eol. destruct (windows0 c); reflexivity. Qed.
Lemma has_lf_repeat x n : Ascii.eqb x LF = false -> has_lf (repeat x n) = false.
Proof. intros H. induction n as [|n IH]; [reflexivity|]. cbn [repeat has_lf existsb]. rewrite H. exact IH. Qed.
Lemma t_indent_O c d : trans O (indent c d) O.
Proof.
  destruct d as [|d]; [apply trans_nil; auto|]. unfold indent. apply t_ws_O. unfold classify.
  destruct (spaces0 c); rewrite has_lf_repeat by reflexivity; reflexivity.
Qed.
Lemma t_sp_A : trans A [sp] A. Proof. apply t_ws_A. reflexivity. Qed.
Lemma t_sp_O : trans O [sp] O. Proof. apply t_ws_O. reflexivity. Qed.
Lemma t_eol c : trans A [eol c] OG. Proof. apply t_nl. apply cl_eol. Qed.
Ltac kwo := apply t_other; apply c_kw_other; reflexivity.

(* ---------------- expressions ---------------- *)
Section Exp.
Variable c : cfg0.
Hypothesis Hsc : sc = space_call (space0 c).
Notation pexp := (Fmt0.pexp c).
(* items separated by commas: the first starts where the list starts, the others behind `, ` *)
Lemma t_commas l : Forall (fun x => trans O x G) l -> l <> [] -> trans O (commas l) G.
Proof.
  induction 1 as [|x r Hx Hr IH]; intros N; [contradiction|]. destruct r as [|y r'].
  - cbn [commas]. exact Hx.
  - change (commas (x :: y :: r')) with (x ++ kw "," :: sp :: commas (y :: r')).
    apply (trans_app O G G); [exact Hx|]. apply (trans_cons G OG G); [apply (trans_weak A G OG OG); [apply G_A|auto|kwo]|].
    apply (trans_cons OG O G); [apply (trans_weak O OG O O); [apply OG_O|auto|apply t_sp_O]|]. apply IH. discriminate.
Qed.
(* the arguments of a call, behind the function: blanks are judged at the `(` *)
Lemma t_pargs_paren xs : trans O xs G \/ xs = [] -> trans G (gap_call c ++ kw "(" :: xs ++ [kw ")"]) G.
Proof.
  intros Hx s [Hs Gs].
  assert (Inner : trans OG (xs ++ [kw ")"]) G).
  { destruct Hx as [Hx| ->]; [|cbn [app]; apply (trans_weak A OG G G); [intros s0 H0; apply (O_A s0 (OG_O s0 H0))|auto|apply t_val; reflexivity]].
    apply (trans_app OG G G); [apply (trans_weak O OG G G); [apply OG_O|auto|exact Hx]|]. apply (trans_weak A G G G); [apply G_A|auto|apply t_val; reflexivity]. }
  unfold gap_call. destruct (space_call (space0 c)) eqn:E; cbn [app run].
  - (* a blank, then the parenthesis: accepted whether or not a value precedes *)
    unfold step at 1. change (classify sp) with KWs. cbn [run]. unfold step at 1. change (classify (kw "(")) with KOpen. cbn [hdr pv gap]. rewrite Hs, Hsc, ?E.
    destruct (pv s); cbn [Bool.eqb negb andb]; apply Inner; repeat split.
  - unfold step at 1. change (classify (kw "(")) with KOpen. rewrite Hs, Gs, Hsc, ?E. destruct (pv s); cbn [Bool.eqb negb andb]; apply Inner; repeat split.
Qed.
Lemma t_from_brace s s0 tl : hdr s = HNo -> hdr s0 = HNo -> run s (kw "{" :: tl) = run s0 (kw "{" :: tl).
Proof. intros H H0. cbn [run]. unfold step. change (classify (kw "{")) with KOther. rewrite H, H0. reflexivity. Qed.
Lemma t_pargs d sug args :
  Forall (fun e => forall d, trans O (pexp d e) G) args -> sug = true -> sugarable args = true ->
  trans G (gap_sugar c :: commas (map (pexp d) args)) G.
Proof.
  intros H _ S. destruct args as [|x [|y r]]; [discriminate| |destruct x; discriminate]. cbn [map commas].
  inversion H as [|? ? Hx _]; subst.
  apply (trans_cons G A G); [apply (trans_weak A G A A); [apply G_A|auto|apply t_ws_A; unfold gap_sugar; destruct (space_call (space0 c)); reflexivity]|].
  destruct x; try discriminate.
  - (* a string *) cbn [Fmt0.pexp]. apply t_val. reflexivity.
  - (* a long string *) cbn [Fmt0.pexp]. apply t_val. reflexivity.
  - (* a table: its opening brace forgets what came before *)
    intros s Hs. assert (E : run s (pexp d (ETable fs)) = run (mk false false HNo) (pexp d (ETable fs))).
    { destruct fs as [|f fs]; [apply (t_from_brace s (mk false false HNo) [kw "}"] Hs eq_refl)|].
      apply (t_from_brace s (mk false false HNo) (sp :: commas (map (pexp d) (f :: fs)) ++ [sp; kw "}"]) Hs eq_refl). }
    rewrite E. apply Hx. split; reflexivity.
  - (* a table over several lines: the same *)
    intros s Hs. assert (E : run s (pexp d (ETableML fs)) = run (mk false false HNo) (pexp d (ETableML fs))).
    { destruct fs as [|f fs]; [apply (t_from_brace s (mk false false HNo) [kw "}"] Hs eq_refl)|].
      rewrite (p_tableml c). apply (t_from_brace s (mk false false HNo) (eol c :: tlines c d (f :: fs) ++ indent c d ++ [kw "}"]) Hs eq_refl). }
    rewrite E. apply Hx. split; reflexivity.
Qed.
Lemma t_pargs_any d sg args : Forall (fun e => forall d, trans O (pexp d e) G) args -> trans G (pargs c (sg && sugarable args) (commas (map (pexp d) args))) G.
Proof.
  intros H. unfold pargs. destruct (sg && sugarable args) eqn:S.
  - apply andb_true_iff in S. apply (t_pargs d true args H eq_refl (proj2 S)).
  - apply t_pargs_paren. destruct args as [|a r]; [right; reflexivity|left]. apply t_commas; [apply Forall_map; eapply Forall_impl; [|exact H]; intros a0 Ha0; apply Ha0|discriminate].
Qed.
(* the brackets of an index or a key, with or without the blanks that keep a long string away from them *)
Lemma t_brk b xs : trans O xs G -> trans A (brk b xs) G.
Proof.
  intros H. unfold brk. destruct b.
  - apply (trans_cons A OG G); [kwo|]. apply (trans_cons OG O G); [apply (trans_weak O OG O O); [apply OG_O|auto|apply t_sp_O]|].
    apply (trans_app O G G); [exact H|]. apply (trans_cons G A G); [apply (trans_weak A G A A); [apply G_A|auto|apply t_sp_A]|]. apply t_val. reflexivity.
  - apply (trans_cons A OG G); [kwo|]. apply (trans_app OG G G); [apply (trans_weak O OG G G); [apply OG_O|auto|exact H]|].
    apply (trans_weak A G G G); [apply G_A|auto|apply t_val; reflexivity].
Qed.
Theorem t_pexp : forall e d, trans O (pexp d e) G.
Proof.
  induction e using exp_ind'; intros d; cbn [Fmt0.pexp].
  - apply (trans_weak A O OG G); [apply O_A|apply OG_G|kwo].
  - apply (trans_weak A O OG G); [apply O_A|apply OG_G|kwo].
  - apply (trans_weak A O OG G); [apply O_A|apply OG_G|kwo].
  - apply (trans_weak A O OG G); [apply O_A|apply OG_G|kwo].
  - apply (trans_weak A O OG G); [apply O_A|apply OG_G|apply t_other; reflexivity].
  - apply (trans_weak A O G G); [apply O_A|auto|apply t_val; reflexivity].
  - apply (trans_weak A O G G); [apply O_A|auto|apply t_val; reflexivity].
  - (* long string *) apply (trans_weak A O G G); [apply O_A|auto|apply t_val; reflexivity].
  - (* p.n *) apply (trans_app O G G); [apply IHe|]. apply (trans_cons G OG G); [apply (trans_weak A G OG OG); [apply G_A|auto|kwo]|].
    apply (trans_weak A OG G G); [intros s0 H0; apply (O_A s0 (OG_O s0 H0))|auto|apply t_val; reflexivity].
  - (* p[k] *) apply (trans_app O G G); [apply IHe1|]. apply (trans_weak A G G G); [apply G_A|auto|]. apply t_brk. apply IHe2.
  - (* f(args) *) apply (trans_app O G G); [apply IHe|]. apply t_pargs_any. exact H.
  - (* o:m(args) *) apply (trans_app O G G); [apply IHe|]. apply (trans_cons G OG G); [apply (trans_weak A G OG OG); [apply G_A|auto|kwo]|].
    apply (trans_cons OG G G); [apply (trans_weak A OG G G); [intros s0 H0; apply (O_A s0 (OG_O s0 H0))|auto|apply t_val; reflexivity]|].
    apply t_pargs_any. exact H.
  - (* unary *) apply (trans_app O O G); [|apply IHe]. destruct u; cbn [uop_toks].
    + apply (trans_weak A O OG O); [apply O_A|apply OG_O|kwo].
    + apply (trans_cons O OG O); [apply (trans_weak A O OG OG); [apply O_A|auto|kwo]|]. apply (trans_weak O OG O O); [apply OG_O|auto|apply t_sp_O].
    + apply (trans_weak A O OG O); [apply O_A|apply OG_O|kwo].
    + apply (trans_weak A O OG O); [apply O_A|apply OG_O|kwo].
  - (* binary *) apply (trans_app O G G); [apply IHe1|]. apply (trans_cons G A G); [apply (trans_weak A G A A); [apply G_A|auto|apply t_sp_A]|].
    apply (trans_cons A OG G); [apply t_other; destruct b; reflexivity|]. apply (trans_cons OG O G); [apply (trans_weak O OG O O); [apply OG_O|auto|apply t_sp_O]|]. apply IHe2.
  - (* parentheses: only ever printed where no value precedes *)
    apply (trans_cons O OG G); [apply t_open_O|]. apply (trans_app OG G G); [apply (trans_weak O OG G G); [apply OG_O|auto|apply IHe]|].
    apply (trans_weak A G G G); [apply G_A|auto|apply t_val; reflexivity].
  - (* table *) destruct fs as [|f fs].
    + apply (trans_cons O OG G); [apply (trans_weak A O OG OG); [apply O_A|auto|kwo]|]. apply (trans_weak A OG G G); [intros s0 H0; apply (O_A s0 (OG_O s0 H0))|auto|apply t_val; reflexivity].
    + apply (trans_cons O OG G); [apply (trans_weak A O OG OG); [apply O_A|auto|kwo]|].
      apply (trans_cons OG O G); [apply (trans_weak O OG O O); [apply OG_O|auto|apply t_sp_O]|].
      apply (trans_app O G G); [apply t_commas; [apply Forall_map; eapply Forall_impl; [|exact H]; intros a0 Ha0; apply Ha0|discriminate]|].
      apply (trans_cons G A G); [apply (trans_weak A G A A); [apply G_A|auto|apply t_sp_A]|]. apply t_val. reflexivity.
  - apply IHe.
  - (* n = x *) apply (trans_cons O G G); [apply (trans_weak A O G G); [apply O_A|auto|apply t_val; reflexivity]|].
    apply (trans_cons G A G); [apply (trans_weak A G A A); [apply G_A|auto|apply t_sp_A]|]. apply (trans_cons A OG G); [kwo|].
    apply (trans_cons OG O G); [apply (trans_weak O OG O O); [apply OG_O|auto|apply t_sp_O]|]. apply IHe.
  - (* [k] = x *) apply (trans_app O G G); [apply (trans_weak A O G G); [apply O_A|auto|apply t_brk; apply IHe1]|].
    apply (trans_cons G A G); [apply (trans_weak A G A A); [apply G_A|auto|apply t_sp_A]|]. apply (trans_cons A OG G); [kwo|].
    apply (trans_cons OG O G); [apply (trans_weak O OG O O); [apply OG_O|auto|apply t_sp_O]|]. apply IHe2.
  - (* a table over several lines: every line is behind a line break, every field ends before a comma *)
    destruct fs as [|f fs].
    + apply (trans_cons O OG G); [apply (trans_weak A O OG OG); [apply O_A|auto|kwo]|]. apply (trans_weak A OG G G); [intros s0 H0; apply (O_A s0 (OG_O s0 H0))|auto|apply t_val; reflexivity].
    + change (trans O (kw "{" :: eol c :: tlines c d (f :: fs) ++ indent c d ++ [kw "}"]) G).
      apply (trans_cons O OG G); [apply (trans_weak A O OG OG); [apply O_A|auto|kwo]|].
      apply (trans_cons OG OG G); [apply (trans_weak A OG OG OG); [intros s0 H0; apply (O_A s0 (OG_O s0 H0))|auto|apply t_eol]|].
      assert (L : forall l, Forall (fun e => forall d, trans O (pexp d e) G) l -> trans OG (tlines c d l) OG).
      { unfold tlines. induction 1 as [|x r Hx Hr IH]; [apply trans_nil; auto|]. cbn [map List.concat].
        apply (trans_app OG OG OG); [|exact IH].
        assert (B : forall (bl : bool) k, trans OG k OG -> trans OG ((if bl then [eol c] else []) ++ k) OG).
        { intros bl k Hk. destruct bl; [|exact Hk]. cbn [app]. apply (trans_cons OG OG OG); [apply (trans_weak A OG OG OG); [intros s0 H0; apply (O_A s0 (OG_O s0 H0))|auto|apply t_eol]|exact Hk]. }
        assert (E : trans A [eol c] OG) by apply t_eol.
        assert (Pl : forall g k, (forall d, trans O (pexp d g) G) -> trans OG k OG -> trans OG (indent c (S d) ++ pexp (S d) g ++ kw "," :: k) OG).
        { intros g k Hg Hk. apply (trans_app OG O OG); [apply (trans_weak O OG O O); [apply OG_O|auto|apply t_indent_O]|].
          apply (trans_app O G OG); [apply Hg|]. apply (trans_cons G OG OG); [apply (trans_weak A G OG OG); [apply G_A|auto|kwo]|exact Hk]. }
        assert (Ee : trans OG [eol c] OG) by (apply (trans_weak A OG OG OG); [intros s0 H0; apply (O_A s0 (OG_O s0 H0))|auto|apply t_eol]).
        destruct (isline x) eqn:Lx.
        - destruct x; try discriminate; cbn [tline].
          + (* a field line *) apply B. apply Pl; [intros d0; pose proof (Hx d0) as Q; cbn [Fmt0.pexp] in Q; exact Q|]. destruct t as [t1|]; cbn [app]; [|exact Ee].
            apply (trans_cons OG O OG); [apply (trans_weak O OG O O); [apply OG_O|auto|apply t_sp_O]|].
            apply (trans_cons O OG OG); [apply (trans_weak A O OG OG); [apply O_A|auto|apply t_other; reflexivity]|exact Ee].
          + (* a comment line *) apply B. apply (trans_app OG O OG); [apply (trans_weak O OG O O); [apply OG_O|auto|apply t_indent_O]|].
            apply (trans_cons O OG OG); [apply (trans_weak A O OG OG); [apply O_A|auto|apply t_other; reflexivity]|exact Ee].
        - rewrite (tline_plain c d x Lx). apply Pl; [exact Hx|exact Ee]. }
      apply (trans_app OG OG G); [apply L; exact H|]. apply (trans_app OG O G); [apply (trans_weak O OG O O); [apply OG_O|auto|apply t_indent_O]|].
      apply (trans_weak A O G G); [apply O_A|auto|apply t_val; reflexivity].
  - (* a field line outside a table *) apply IHe.
  - (* a comment line outside a table *) apply (trans_weak A O OG G); [apply O_A|apply OG_G|kwo].
Qed.

(* ---------------- statements ---------------- *)
Hypothesis Hsd : sd = space_definition (space0 c).
Notation pexps := (Fmt0.pexps c).
Definition sub (P Q : sst -> Prop) : Prop := forall s, P s -> Q s.
Lemma sub_refl P : sub P P. Proof. intros s H. exact H. Qed.
Lemma sub_OG_O : sub OG O. Proof. exact OG_O. Qed.
Lemma sub_OG_G : sub OG G. Proof. exact OG_G. Qed.
Lemma sub_O_A : sub O A. Proof. exact O_A. Qed.
Lemma sub_G_A : sub G A. Proof. exact G_A. Qed.
Lemma sub_OG_A : sub OG A. Proof. intros s H. apply O_A. apply OG_O. exact H. Qed.
Local Hint Resolve sub_refl sub_OG_O sub_OG_G sub_O_A sub_G_A sub_OG_A : sub.
(* one token in front of a segment *)
Lemma c_other t r P Q : classify t = KOther -> sub P A -> trans OG r Q -> trans P (t :: r) Q.
Proof. intros C S H. apply (trans_cons P OG Q); [apply (trans_weak A P OG OG); [exact S|auto|apply t_other; exact C]|exact H]. Qed.
Lemma c_val t r P Q : isval (classify t) = true -> sub P A -> trans G r Q -> trans P (t :: r) Q.
Proof. intros C S H. apply (trans_cons P G Q); [apply (trans_weak A P G G); [exact S|auto|apply t_val; exact C]|exact H]. Qed.
Lemma c_sp_A r P Q : sub P A -> trans A r Q -> trans P (sp :: r) Q.
Proof. intros S H. apply (trans_cons P A Q); [apply (trans_weak A P A A); [exact S|auto|apply t_sp_A]|exact H]. Qed.
Lemma c_sp_O r P Q : sub P O -> trans O r Q -> trans P (sp :: r) Q.
Proof. intros S H. apply (trans_cons P O Q); [apply (trans_weak O P O O); [exact S|auto|apply t_sp_O]|exact H]. Qed.
Lemma c_eol r P Q : sub P A -> trans OG r Q -> trans P (eol c :: r) Q.
Proof. intros S H. apply (trans_cons P OG Q); [apply (trans_weak A P OG OG); [exact S|auto|apply t_eol]|exact H]. Qed.
Lemma c_app x r P M Q : trans P x M -> trans M r Q -> trans P (x ++ r) Q.
Proof. apply trans_app. Qed.
Lemma c_weak x P P' Q Q' : sub P' P -> sub Q Q' -> trans P x Q -> trans P' x Q'.
Proof. intros A1 A2. apply trans_weak; assumption. Qed.
Lemma c_nil P Q : sub P Q -> trans P [] Q. Proof. apply trans_nil. Qed.
Ltac kwc := apply c_kw_other; reflexivity.

Lemma t_pexp_s d e P Q : sub P O -> sub G Q -> trans P (pexp d e) Q.
Proof. intros S1 S2. apply (c_weak (pexp d e) O P G Q S1 S2). apply t_pexp. Qed.
Lemma t_pexps d es P Q : sub P O -> sub G Q -> sub P Q -> trans P (pexps d es) Q.
Proof.
  intros S1 S2 S3. destruct es as [|e r]; [apply c_nil; exact S3|]. apply (c_weak (pexps d (e :: r)) O P G Q S1 S2).
  unfold Fmt0.pexps. apply t_commas; [|discriminate]. apply Forall_map. apply Forall_forall. intros x _. apply t_pexp.
Qed.
Lemma t_pnames ns P Q : sub P O -> sub G Q -> sub P Q -> trans P (pnames ns) Q.
Proof.
  intros S1 S2 S3. destruct ns as [|n r]; [apply c_nil; exact S3|]. apply (c_weak (pnames (n :: r)) O P G Q S1 S2).
  unfold pnames. apply t_commas; [|discriminate]. apply Forall_map. apply Forall_forall. intros x _. apply c_val; [reflexivity|auto with sub|apply c_nil; auto with sub].
Qed.
(* own-line comments and the trailing comment *)
Lemma t_ptrivia d tv : trans O (ptrivia c d tv) O.
Proof.
  unfold ptrivia. induction tv as [|[b x] r IH]; [apply c_nil; auto with sub|]. cbn [map List.concat fst snd]. rewrite <- !app_assoc.
  apply (c_app _ _ O O O); [destruct b; [apply c_eol; [auto with sub|apply c_nil; auto with sub]|apply c_nil; auto with sub]|].
  apply (c_app _ _ O O O); [apply t_indent_O|]. cbn [app]. apply c_other; [reflexivity|auto with sub|]. apply c_eol; [auto with sub|]. apply (c_weak _ O OG O O); auto with sub.
Qed.
Lemma t_ptrail t : trans A (ptrail t) A.
Proof. destruct t as [x|]; [|apply c_nil; auto with sub]. cbn [ptrail]. apply c_sp_A; [auto with sub|]. apply c_other; [reflexivity|auto with sub|apply c_nil; auto with sub]. Qed.

(* the header of a function: from the keyword to the closing parenthesis of the parameters *)
Definition H (s : sst) : Prop := hdr s = HName /\ (pv s = true -> gap s = false).
Lemma h_other t : classify t = KOther -> trans H [t] H.
Proof. intros C s [Hs _]. exists (mk false false (hdr s)). cbn [run]. unfold step. rewrite C. split; [reflexivity|]. split; [exact Hs|discriminate]. Qed.
Lemma h_val t : classify t = KVal -> trans H [t] H.
Proof. intros C s [Hs _]. exists (mk true false (hdr s)). cbn [run]. unfold step. rewrite C. split; [reflexivity|]. split; [exact Hs|reflexivity]. Qed.
Lemma h_dotted p : trans H (dotted p) H.
Proof.
  induction p as [|n r IH]; [apply c_nil; apply sub_refl|]. destruct r as [|m r']; [apply h_val; reflexivity|].
  change (dotted (n :: m :: r')) with (TIdent n :: kw "." :: dotted (m :: r')).
  apply (trans_cons H H H); [apply h_val; reflexivity|]. apply (trans_cons H H H); [apply h_other; kwc|exact IH].
Qed.
(* between the parentheses of the parameters: names, commas, blanks, `...`; the closing parenthesis leaves the header *)
Definition PP (s : sst) : Prop := hdr s = HPar.
Lemma pp_keep t : match classify t with KVal | KOther | KWs => true | _ => false end = true -> trans PP [t] PP.
Proof.
  intros C s Hs. unfold PP in Hs. cbn [run]. unfold step. destruct (classify t); try discriminate; eexists; (split; [reflexivity|]); exact Hs.
Qed.
Lemma pp_close : trans PP [kw ")"] OG.
Proof. intros s Hs. unfold PP in Hs. exists (mk false false HNo). cbn [run]. unfold step. change (classify (kw ")")) with KClose. rewrite Hs. split; [reflexivity|repeat split]. Qed.
Lemma pp_commas l : Forall (fun x => trans PP x PP) l -> trans PP (commas l) PP.
Proof.
  induction 1 as [|x r Hx Hr IH]; [apply c_nil; apply sub_refl|]. destruct r as [|y r']; [exact Hx|].
  change (commas (x :: y :: r')) with (x ++ kw "," :: sp :: commas (y :: r')).
  apply (trans_app PP PP PP); [exact Hx|]. apply (trans_cons PP PP PP); [apply pp_keep; reflexivity|]. apply (trans_cons PP PP PP); [apply pp_keep; reflexivity|exact IH].
Qed.
Lemma t_params (ps : list bytes) (va : bool) : trans PP (commas (map (fun n0 : bytes => [TIdent n0]) ps ++ (if va then [[kw "..."]] else [])) ++ [kw ")"]) OG.
Proof.
  apply (trans_app PP PP OG); [|apply pp_close]. apply pp_commas. apply Forall_app. split.
  - apply Forall_map. apply Forall_forall. intros x _. apply pp_keep. reflexivity.
  - destruct va; [|constructor]. constructor; [|constructor]. apply pp_keep. reflexivity.
Qed.
Lemma h_pparams ps va : trans H (pparams c ps va) OG.
Proof.
  intros s [Hs Gs]. unfold pparams.
  destruct (t_params ps va (mk false false HPar)) as (s' & E & Q); [reflexivity|].
  exists s'. split; [|exact Q]. rewrite <- E. destruct (space_definition (space0 c)) eqn:D; cbn [app run].
  - unfold step at 1. change (classify sp) with KWs. cbn [run]. unfold step at 1. change (classify (kw "(")) with KOpen. cbn [hdr pv gap].
    rewrite Hs, Hsd, ?D. destruct (pv s); reflexivity.
  - unfold step at 1. change (classify (kw "(")) with KOpen. rewrite Hs, Hsd, ?D. destruct (pv s) eqn:Pv; [rewrite (Gs eq_refl)|]; reflexivity.
Qed.
Lemma t_header p m ps va : trans A (kw "function" :: sp :: dotted p ++ (match m with Some n => [kw ":"; TIdent n] | None => [] end) ++ pparams c ps va) OG.
Proof.
  pose (H0 := fun s : sst => hdr s = HName /\ pv s = false).
  assert (F : trans A [kw "function"] H0).
  { intros s _. exists (mk false false HName). split; [reflexivity|]. split; reflexivity. }
  assert (S : trans H0 [sp] H).
  { intros s [Hs Ps]. exists (mk (pv s) true (hdr s)). split; [reflexivity|]. split; [exact Hs|]. cbn [pv]. rewrite Ps. discriminate. }
  apply (trans_cons A H0 OG); [exact F|]. apply (trans_cons H0 H OG); [exact S|]. apply (trans_app H H OG); [apply h_dotted|].
  apply (trans_app H H OG); [|apply h_pparams]. destruct m as [n|]; [|apply c_nil; apply sub_refl].
  apply (trans_cons H H H); [apply h_other; kwc|apply h_val; reflexivity].
Qed.
(* the statements without a block inside *)
Lemma t_psimple d s : trans O (psimple c d s) A.
Proof.
  destruct s; try (apply c_nil; auto with sub); cbn [psimple].
  - destruct es as [|e es']; apply c_other; try kwc; auto with sub; (apply c_sp_O; [auto with sub|]).
    + apply t_pnames; auto with sub.
    + apply (c_app _ _ O A A); [apply t_pnames; auto with sub|]. apply c_sp_A; [auto with sub|]. apply c_other; [kwc|auto with sub|].
      apply c_sp_O; [auto with sub|]. apply t_pexps; auto with sub.
  - apply (c_app _ _ O A A); [apply t_pexps; auto with sub|]. apply c_sp_A; [auto with sub|]. apply c_other; [kwc|auto with sub|].
    apply c_sp_O; [auto with sub|]. apply t_pexps; auto with sub.
  - apply t_pexp_s; auto with sub.
  - destruct es as [|e es']; (apply c_other; [kwc|auto with sub|]); [apply c_nil; auto with sub|]. apply c_sp_O; [auto with sub|]. apply t_pexps; auto with sub.
  - apply c_other; [kwc|auto with sub|apply c_nil; auto with sub].
Qed.
(* ` <statement> end` behind `then` or a function header *)
Lemma t_collapsed d s1 : trans O (sp :: psimple c d s1 ++ [sp; kw "end"]) A.
Proof.
  apply c_sp_O; [apply sub_refl|]. apply (c_app _ _ O A A); [apply t_psimple|]. apply c_sp_A; [apply sub_refl|].
  apply c_other; [kwc|apply sub_refl|apply c_nil; auto with sub].
Qed.

Definition Ps (s : stmt) : Prop := forall d, trans O (pstmt c d s) A.
Definition Qs (r : els) : Prop := forall d, trans O (pels c d r) O.
Definition Is (i : item) : Prop := forall d, trans O (pitem c d i) O.
Definition Bs (b : blk) : Prop := forall d, trans O (pblk c d b) O.
Lemma t_block_end b d Q : Bs b -> sub OG Q -> trans O (pblk c (S d) b ++ indent c d ++ [kw "end"]) Q.
Proof.
  intros Hb S. apply (c_app _ _ O O Q); [apply Hb|]. apply (c_app _ _ O O Q); [apply t_indent_O|].
  apply c_other; [kwc|auto with sub|apply c_nil; exact S].
Qed.
Lemma t_do_end b d P Q : Bs b -> sub P A -> sub OG Q -> trans P (kw "do" :: eol c :: pblk c (S d) b ++ indent c d ++ [kw "end"]) Q.
Proof. intros Hb S1 S2. apply c_other; [kwc|exact S1|]. apply c_eol; [auto with sub|]. apply (c_weak _ O OG Q Q); [auto with sub|apply sub_refl|]. apply t_block_end; assumption. Qed.
Lemma t_fbody b d : Bs b -> trans O (fbody c d b) A.
Proof.
  intros Hb. unfold fbody. destruct (blk_empty b).
  - apply c_sp_A; [auto with sub|]. apply c_other; [kwc|auto with sub|apply c_nil; auto with sub].
  - assert (N : trans O (eol c :: pblk c (S d) b ++ indent c d ++ [kw "end"]) A).
    { apply c_eol; [auto with sub|]. apply (c_weak _ O OG A A); [auto with sub|apply sub_refl|]. apply t_block_end; [exact Hb|auto with sub]. }
    destruct (fun_guard c b) as [s1|]; [destruct (oneline (psimple c d s1) && nocom (psimple c d s1)); [apply t_collapsed|exact N]|exact N].
Qed.
Lemma t_concat_items is : Forall Is is -> forall d, trans O (List.concat (map (pitem c d) is)) O.
Proof. induction 1 as [|i r Hi Hr IH]; intros d; [apply c_nil; apply sub_refl|]. cbn [map List.concat]. apply (c_app _ _ O O O); [apply Hi|apply IH]. Qed.
Opaque pblk.
Theorem t_all : (forall s, Ps s) /\ (forall b, Bs b).
Proof.
  assert (Hitem : forall l bl s t, Ps s -> Is (Item l bl s t)).
  { intros l bl s t Hs d. rewrite p_item. apply (c_app _ _ O O O); [apply t_ptrivia|].
    apply (c_app _ _ O O O); [destruct bl; [apply c_eol; [auto with sub|apply c_nil; auto with sub]|apply c_nil; apply sub_refl]|].
    apply (c_app _ _ O O O); [apply t_indent_O|]. apply (c_app _ _ O A O); [apply Hs|]. apply (c_app _ _ A A O); [apply t_ptrail|].
    apply c_eol; [apply sub_refl|apply c_nil; auto with sub]. }
  assert (Hs : forall s, Ps s); [|split; [exact Hs|]].
  - apply (stmt_ind' Ps Qs Is Bs); unfold Ps, Qs, Bs; intros; try (apply Hitem; assumption).
    + (* local *) destruct es as [|e es']; cbn [pstmt psimple]; apply c_other; try kwc; auto with sub; (apply c_sp_O; [auto with sub|]).
      * apply t_pnames; auto with sub.
      * apply (c_app _ _ O A A); [apply t_pnames; auto with sub|]. apply c_sp_A; [auto with sub|]. apply c_other; [kwc|auto with sub|].
        apply c_sp_O; [auto with sub|]. apply t_pexps; auto with sub.
    + (* assignment *) cbn [pstmt psimple]. apply (c_app _ _ O A A); [apply t_pexps; auto with sub|]. apply c_sp_A; [auto with sub|]. apply c_other; [kwc|auto with sub|].
      apply c_sp_O; [auto with sub|]. apply t_pexps; auto with sub.
    + (* call *) cbn [pstmt psimple]. apply t_pexp_s; auto with sub.
    + (* do *) rewrite p_do. apply t_do_end; auto with sub.
    + (* while *) rewrite p_while. apply c_other; [kwc|auto with sub|]. apply c_sp_O; [auto with sub|]. apply (c_app _ _ O A A); [apply t_pexp_s; auto with sub|].
      apply c_sp_A; [auto with sub|]. apply t_do_end; auto with sub.
    + (* repeat *) rewrite p_repeat. apply c_other; [kwc|auto with sub|]. apply c_eol; [auto with sub|]. apply (c_weak _ O OG A A); [auto with sub|apply sub_refl|].
      apply (c_app _ _ O O A); [apply H0|]. apply (c_app _ _ O O A); [apply t_indent_O|]. apply c_other; [kwc|auto with sub|]. apply c_sp_O; [auto with sub|]. apply t_pexp_s; auto with sub.
    + (* if *) rewrite p_if.
      assert (N : trans O (kw "if" :: sp :: pexp d e ++ sp :: kw "then" :: eol c :: pblk c (S d) t ++ pels c d r ++ indent c d ++ [kw "end"]) A).
      { apply c_other; [kwc|auto with sub|]. apply c_sp_O; [auto with sub|]. apply (c_app _ _ O A A); [apply t_pexp_s; auto with sub|].
        apply c_sp_A; [auto with sub|]. apply c_other; [kwc|auto with sub|]. apply c_eol; [auto with sub|]. apply (c_weak _ O OG A A); [auto with sub|apply sub_refl|].
        apply (c_app _ _ O O A); [apply H0|]. apply (c_app _ _ O O A); [apply H1|]. apply (c_app _ _ O O A); [apply t_indent_O|]. apply c_other; [kwc|auto with sub|apply c_nil; auto with sub]. }
      destruct (if_guard c t r) as [s1|]; [destruct (nocom (psimple c d s1)); [|exact N]|exact N].
      apply c_other; [kwc|auto with sub|]. apply c_sp_O; [auto with sub|]. apply (c_app _ _ O A A); [apply t_pexp_s; auto with sub|].
      apply c_sp_A; [auto with sub|]. apply c_other; [kwc|auto with sub|]. apply (c_weak _ O OG A A); [auto with sub|apply sub_refl|apply t_collapsed].
    + (* numeric for *) rewrite p_numfor. apply c_other; [kwc|auto with sub|]. apply c_sp_O; [auto with sub|]. apply c_val; [reflexivity|auto with sub|].
      apply c_sp_A; [auto with sub|]. apply c_other; [kwc|auto with sub|]. apply c_sp_O; [auto with sub|]. apply (c_app _ _ O A A); [apply t_pexp_s; auto with sub|].
      apply c_other; [kwc|auto with sub|]. apply c_sp_O; [auto with sub|]. apply (c_app _ _ O A A); [apply t_pexp_s; auto with sub|].
      apply (c_app _ _ A A A); [destruct st as [x|]; [apply c_other; [kwc|auto with sub|]; apply c_sp_O; [auto with sub|]; apply t_pexp_s; auto with sub|apply c_nil; apply sub_refl]|].
      apply c_sp_A; [auto with sub|]. apply t_do_end; auto with sub.
    + (* generic for *) rewrite p_genfor. apply c_other; [kwc|auto with sub|]. apply c_sp_O; [auto with sub|]. apply (c_app _ _ O A A); [apply t_pnames; auto with sub|].
      apply c_sp_A; [auto with sub|]. apply c_other; [kwc|auto with sub|]. apply c_sp_O; [auto with sub|]. apply (c_app _ _ O A A); [apply t_pexps; auto with sub|].
      apply c_sp_A; [auto with sub|]. apply t_do_end; auto with sub.
    + (* function *) rewrite p_function.
      change (kw "function" :: sp :: dotted p ++ (match m with Some n => [kw ":"; TIdent n] | None => [] end) ++ pparams c ps va ++ fbody c d body)
        with ((kw "function" :: sp :: dotted p) ++ (match m with Some n => [kw ":"; TIdent n] | None => [] end) ++ pparams c ps va ++ fbody c d body).
      rewrite !app_assoc. apply (c_app _ _ O OG A); [|apply (c_weak _ O OG A A); [auto with sub|apply sub_refl|apply t_fbody; assumption]].
      rewrite <- !app_assoc. apply (c_weak _ A O OG OG); [auto with sub|apply sub_refl|]. apply t_header.
    + (* local function *) rewrite p_localfunction. apply c_other; [kwc|auto with sub|]. apply c_sp_O; [auto with sub|].
      change (kw "function" :: sp :: TIdent n :: pparams c ps va ++ fbody c d body) with ((kw "function" :: sp :: dotted [n] ++ [] ++ pparams c ps va) ++ fbody c d body).
      apply (c_app _ _ O OG A); [|apply (c_weak _ O OG A A); [auto with sub|apply sub_refl|apply t_fbody; assumption]].
      apply (c_weak _ A O OG OG); [auto with sub|apply sub_refl|]. apply (t_header [n] None ps va).
    + (* return *) destruct es as [|e es']; cbn [pstmt psimple]; (apply c_other; [kwc|auto with sub|]); [apply c_nil; auto with sub|]. apply c_sp_O; [auto with sub|]. apply t_pexps; auto with sub.
    + (* break *) cbn [pstmt psimple]. apply c_other; [kwc|auto with sub|apply c_nil; auto with sub].
    + (* no else *) apply c_nil. apply sub_refl.
    + (* else *) rewrite p_else. apply (c_app _ _ O O O); [apply t_indent_O|]. apply c_other; [kwc|auto with sub|]. apply c_eol; [auto with sub|]. apply (c_weak _ O OG O O); [auto with sub|apply sub_refl|apply H0].
    + (* elseif *) rewrite p_elseif. apply (c_app _ _ O O O); [apply t_indent_O|]. apply c_other; [kwc|auto with sub|]. apply c_sp_O; [auto with sub|].
      apply (c_app _ _ O A O); [apply t_pexp_s; auto with sub|]. apply c_sp_A; [auto with sub|]. apply c_other; [kwc|auto with sub|]. apply c_eol; [auto with sub|].
      apply (c_weak _ O OG O O); [auto with sub|apply sub_refl|]. apply (c_app _ _ O O O); [apply H0|apply H1].
    + (* block *) rewrite p_blk. apply (c_app _ _ O O O); [apply t_concat_items; assumption|apply t_ptrivia].
  - intros [is tl] d. rewrite p_blk. apply (c_app _ _ O O O); [|apply t_ptrivia]. apply t_concat_items. apply Forall_forall. intros [l bl s t] _. apply Hitem. apply Hs.
Qed.
Transparent pblk.
(* the scanner accepts what is printed for any tree *)
Theorem pprog_spacing p : run init (pprog c p) <> None.
Proof.
  destruct (proj2 t_all p 0 init) as (s' & E & _); [split; reflexivity|]. unfold pprog. rewrite E. discriminate.
Qed.
End Exp.
End Scan.

(* the statement with the option's own functions in place of the two booleans *)
Definition scan (c : cfg0) (ts : list tok) : option sst := run (space_call (space0 c)) (space_definition (space0 c)) init ts.
Theorem printed_tokens_obey_space_after_function_names c p : scan c (pprog c p) <> None.
Proof. apply (pprog_spacing (space_call (space0 c)) (space_definition (space0 c)) c eq_refl eq_refl). Qed.
Theorem format0_obeys_space_after_function_names c p : scan c (pprog c (norm0 c p)) <> None.
Proof. apply printed_tokens_obey_space_after_function_names. Qed.
(* non-vacuity: the scanner rejects a blank where the option forbids it and a missing blank where the option asks for one *)
Definition cfg_of (m : smode) : cfg0 := {| windows0 := false; spaces0 := false; width0 := 4; style0 := QuoteMore.AutoDouble; callp0 := Always; space0 := m; collapse0 := CAlways |}.
Example scanner_rejects :
  scan (cfg_of SNever) [TIdent (str "f"); sp; kw "("; kw ")"] = None
  /\ scan (cfg_of SCalls) [TIdent (str "f"); kw "("; kw ")"] = None
  /\ scan (cfg_of SDefinitions) [kw "function"; sp; TIdent (str "g"); kw "("; kw ")"; sp; kw "end"] = None
  /\ scan (cfg_of SCalls) [kw "function"; sp; TIdent (str "g"); sp; kw "("; kw ")"; sp; kw "end"] = None
  /\ scan (cfg_of SCalls) [kw "local"; sp; TIdent (str "x"); sp; kw "="; sp; kw "("; TIdent (str "a"); kw ")"; kw "("; kw ")"] = None
  /\ scan (cfg_of SNever) [kw "return"; sp; kw "("; TIdent (str "a"); kw ")"; kw "("; kw ")"] <> None.
Proof. repeat split; try reflexivity. discriminate. Qed.
