From Coq Require Import List Ascii String NArith Bool Arith Lia.
Import ListNotations.
From SV Require Import Lex LexRender.
Open Scope char_scope.

(* a character that can never continue a numeric literal, in any dialect *)
Definition num_stop (c : ascii) : bool :=
  negb (is_ident_char c) && negb (eqc c ".").
Definition follow_num (rest : bytes) : Prop := match rest with c :: _ => num_stop c = true | [] => True end.

Lemma stop_facts c : num_stop c = true ->
  is_digit c = false /\ eqc c "_" = false /\ eqc c "." = false /\ is_e c = false /\ is_p c = false /\
  is_jit_suffix c = false /\ is_hex c = false /\ eqc c "+" = false \/ True.
Proof. intros _. right. exact I. Qed.

Lemma stop_digit c : num_stop c = true -> is_digit c = false.
Proof. unfold num_stop, is_ident_char. intros H. apply andb_true_iff in H. destruct H as [H _].
  apply negb_true_iff in H. apply orb_false_iff in H. tauto. Qed.
Lemma stop_start c : num_stop c = true -> is_ident_start c = false.
Proof. unfold num_stop, is_ident_char. intros H. apply andb_true_iff in H. destruct H as [H _].
  apply negb_true_iff in H. apply orb_false_iff in H. tauto. Qed.
Lemma stop_dot c : num_stop c = true -> eqc c "." = false.
Proof. unfold num_stop. intros H. apply andb_true_iff in H. destruct H as [_ H]. apply negb_true_iff in H. exact H. Qed.
Lemma start_of_letter c x : is_ident_start c = false -> (is_lower x = true \/ is_upper x = true \/ x = "_") -> eqc c x = false.
Proof.
  intros H Hx. destruct (eqc c x) eqn:E; [|reflexivity]. apply Ascii.eqb_eq in E. subst c.
  unfold is_ident_start in H. apply orb_false_iff in H. destruct H as [H U]. apply orb_false_iff in H. destruct H as [L Up].
  destruct Hx as [A|[A|A]]; [congruence|congruence|subst; discriminate].
Qed.
Lemma stop_us c : num_stop c = true -> eqc c "_" = false.
Proof. intros H. apply (start_of_letter c "_" (stop_start c H)). right; right; reflexivity. Qed.
Lemma stop_e c : num_stop c = true -> is_e c = false.
Proof. intros H. pose proof (stop_start c H) as S. unfold is_e.
  rewrite (start_of_letter c "e" S) by (left; reflexivity).
  rewrite (start_of_letter c "E" S) by (right; left; reflexivity). reflexivity. Qed.
Lemma stop_jit c : num_stop c = true -> is_jit_suffix c = false.
Proof. intros H. pose proof (stop_start c H) as S. unfold is_jit_suffix, is_u, is_l, is_i.
  rewrite (start_of_letter c "u" S) by (left; reflexivity).
  rewrite (start_of_letter c "U" S) by (right; left; reflexivity).
  rewrite (start_of_letter c "l" S) by (left; reflexivity).
  rewrite (start_of_letter c "L" S) by (right; left; reflexivity).
  rewrite (start_of_letter c "i" S) by (left; reflexivity).
  rewrite (start_of_letter c "I" S) by (right; left; reflexivity). reflexivity. Qed.

Lemma digits_us_app v s rest n : digits_us v s = (n, []) -> follow_num rest -> digits_us v (s ++ rest) = (n, rest).
Proof.
  revert n. induction s as [|c s IH]; intros n H Hf; cbn in *.
  - inversion H; subst. destruct rest as [|c r]; [reflexivity|]. cbn in Hf. cbn.
    rewrite (stop_digit c Hf), (stop_us c Hf). rewrite andb_false_r. reflexivity.
  - destruct (is_digit c || vluau v && eqc c "_").
    + destruct (digits_us v s) as [a b] eqn:E. inversion H; subst. rewrite (IH a eq_refl Hf). reflexivity.
    + inversion H.
Qed.

Lemma exponent_app v acc s rest n : exponent v acc s = Some (n, []) -> follow_num rest ->
  exponent v acc (s ++ rest) = Some (n, rest).
Proof.
  unfold exponent. destruct s as [|e r]; [discriminate|]. cbn [app]. intros H Hf.
  destruct r as [|c r'].
  - cbn in H. discriminate.
  - cbn [app] in *. destruct (eqc c "+" || eqc c "-").
    + destruct r' as [|d r'']; [discriminate|]. cbn [app]. destruct (is_digit d); [|discriminate].
      destruct (digits_us v (d :: r'')) as [ds r2] eqn:E. inversion H; subst.
      change (d :: r'' ++ rest) with ((d :: r'') ++ rest). rewrite (digits_us_app v (d :: r'') rest ds E Hf). reflexivity.
    + destruct (is_digit c); [|discriminate].
      destruct (digits_us v (c :: r')) as [ds r2] eqn:E. inversion H; subst.
      change (c :: r' ++ rest) with ((c :: r') ++ rest). rewrite (digits_us_app v (c :: r') rest ds E Hf). reflexivity.
Qed.
Print Assumptions exponent_app.

Lemma number_body_app v rest : vjit v = false -> follow_num rest ->
  forall s fuel hit acc n, number_body v fuel hit acc s = Some (n, []) ->
  number_body v fuel hit acc (s ++ rest) = Some (n, rest).
Proof.
  intros Hj Hf. induction s as [|c s IH]; intros fuel hit acc n H.
  - destruct fuel; [discriminate|]. cbn in H. inversion H; subst. cbn [app].
    destruct rest as [|c r]; [reflexivity|]. cbn in Hf. cbn [number_body].
    rewrite (stop_digit c Hf), (stop_us c Hf), (stop_dot c Hf), (stop_e c Hf), Hj. rewrite andb_false_r. reflexivity.
  - destruct fuel; [discriminate|]. cbn [app number_body] in *.
    destruct (is_digit c || vluau v && eqc c "_"); [apply IH; exact H|].
    destruct (eqc c "."); [destruct hit; [discriminate|apply IH; exact H]|].
    destruct (is_e c).
    + change (c :: s ++ rest) with ((c :: s) ++ rest). apply exponent_app; auto.
    + rewrite Hj in *. cbn [andb] in *. inversion H.
Qed.

(* decimal numbers (no LuaJIT suffixes): whatever the lexer accepts as one whole number lexes back in context *)
Definition wf_decimal (v : ver) (c : ascii) (s : bytes) : Prop :=
  is_digit c = true /\ eqc c "0" = false /\ number_body v (S (List.length s)) false [c] s = Some (c :: s, []).

Lemma number_body_fuel v : forall s fuel hit acc r, number_body v fuel hit acc s = Some r ->
  number_body v (S fuel) hit acc s = Some r.
Proof.
  induction s as [|c s IH]; intros fuel hit acc r H; (destruct fuel; [discriminate|]).
  - exact H.
  - cbn [number_body] in *. destruct (is_digit c || vluau v && eqc c "_"); [apply IH; exact H|].
    destruct (eqc c "."); [destruct hit; [discriminate|apply IH; exact H]|]. exact H.
Qed.
Lemma number_body_fuel_ge v s hit acc r : forall k fuel, number_body v fuel hit acc s = Some r ->
  number_body v (k + fuel) hit acc s = Some r.
Proof. induction k; intros; cbn; auto. apply number_body_fuel. auto. Qed.

Lemma digit_not c x : is_digit c = true -> (N_of_ascii x < 48 \/ 57 < N_of_ascii x)%N -> eqc c x = false.
Proof.
  intros Hd Hx. destruct (eqc c x) eqn:E; auto. apply Ascii.eqb_eq in E. subst x.
  unfold is_digit, in_range, code in Hd. apply andb_true_iff in Hd. destruct Hd as [A B]. apply N.leb_le in A, B. lia.
Qed.
Lemma digit_not_start c : is_digit c = true -> is_ident_start c = false.
Proof.
  intros Hd. unfold is_ident_start, is_lower, is_upper, in_range.
  pose proof Hd as Hd'. unfold is_digit, in_range, code in Hd'. apply andb_true_iff in Hd'. destruct Hd' as [A B]. apply N.leb_le in A, B.
  rewrite (digit_not c "_" Hd) by (right; cbn; lia).
  assert (X : (97 <=? code c)%N = false) by (apply N.leb_gt; unfold code; lia).
  assert (Y : (65 <=? code c)%N = false) by (apply N.leb_gt; unfold code; lia).
  rewrite X, Y. reflexivity.
Qed.

Theorem single_decimal v c s rest : vjit v = false -> wf_decimal v c s -> follow_num rest -> single v (TNum (c :: s)) rest.
Proof.
  intros Hj (Hd & H0 & Hn) Hf. unfold single. cbn [show app]. unfold lex_one.
  rewrite (digit_not_start c Hd).
  rewrite (digit_not c SP Hd) by (left; cbn; lia).
  rewrite (digit_not c TAB Hd) by (left; cbn; lia).
  rewrite (digit_not c CR Hd) by (left; cbn; lia).
  rewrite (digit_not c LF Hd) by (left; cbn; lia).
  cbn [orb]. rewrite H0, Hd.
  pose proof (number_body_app v rest Hj Hf s _ false [c] (c :: s) Hn) as A.
  apply (number_body_fuel_ge v (s ++ rest) false [c] (c :: s, rest) (List.length rest)) in A.
  replace (List.length rest + S (List.length s)) with (S (List.length (s ++ rest))) in A by (rewrite app_length; lia).
  rewrite A. reflexivity.
Qed.
Print Assumptions single_decimal.
