theories/Quote.vo theories/Quote.glob theories/Quote.v.beautified theories/Quote.required_vo: theories/Quote.v 
theories/Quote.vio: theories/Quote.v 
theories/Quote.vos theories/Quote.vok theories/Quote.required_vos: theories/Quote.v 
theories/Quote51.vo theories/Quote51.glob theories/Quote51.v.beautified theories/Quote51.required_vo: theories/Quote51.v theories/Quote.vo
theories/Quote51.vio: theories/Quote51.v theories/Quote.vio
theories/Quote51.vos theories/Quote51.vok theories/Quote51.required_vos: theories/Quote51.v theories/Quote.vos
theories/QuoteX.vo theories/QuoteX.glob theories/QuoteX.v.beautified theories/QuoteX.required_vo: theories/QuoteX.v theories/Quote.vo
theories/QuoteX.vio: theories/QuoteX.v theories/Quote.vio
theories/QuoteX.vos theories/QuoteX.vok theories/QuoteX.required_vos: theories/QuoteX.v theories/Quote.vos
theories/QuoteAll.vo theories/QuoteAll.glob theories/QuoteAll.v.beautified theories/QuoteAll.required_vo: theories/QuoteAll.v theories/Quote.vo theories/QuoteX.vo
theories/QuoteAll.vio: theories/QuoteAll.v theories/Quote.vio theories/QuoteX.vio
theories/QuoteAll.vos theories/QuoteAll.vok theories/QuoteAll.required_vos: theories/QuoteAll.v theories/Quote.vos theories/QuoteX.vos
theories/QuoteMore.vo theories/QuoteMore.glob theories/QuoteMore.v.beautified theories/QuoteMore.required_vo: theories/QuoteMore.v theories/Quote.vo theories/QuoteX.vo
theories/QuoteMore.vio: theories/QuoteMore.v theories/Quote.vio theories/QuoteX.vio
theories/QuoteMore.vos theories/QuoteMore.vok theories/QuoteMore.required_vos: theories/QuoteMore.v theories/Quote.vos theories/QuoteX.vos
theories/Bracket.vo theories/Bracket.glob theories/Bracket.v.beautified theories/Bracket.required_vo: theories/Bracket.v theories/Quote.vo
theories/Bracket.vio: theories/Bracket.v theories/Quote.vio
theories/Bracket.vos theories/Bracket.vok theories/Bracket.required_vos: theories/Bracket.v theories/Quote.vos
theories/BracketProof.vo theories/BracketProof.glob theories/BracketProof.v.beautified theories/BracketProof.required_vo: theories/BracketProof.v theories/Quote.vo theories/Bracket.vo
theories/BracketProof.vio: theories/BracketProof.v theories/Quote.vio theories/Bracket.vio
theories/BracketProof.vos theories/BracketProof.vok theories/BracketProof.required_vos: theories/BracketProof.v theories/Quote.vos theories/Bracket.vos
theories/Number.vo theories/Number.glob theories/Number.v.beautified theories/Number.required_vo: theories/Number.v theories/Quote.vo
theories/Number.vio: theories/Number.v theories/Quote.vio
theories/Number.vos theories/Number.vok theories/Number.required_vos: theories/Number.v theories/Quote.vos
theories/Extract.vo theories/Extract.glob theories/Extract.v.beautified theories/Extract.required_vo: theories/Extract.v theories/Quote.vo theories/Quote51.vo theories/QuoteX.vo theories/QuoteMore.vo theories/Bracket.vo theories/Number.vo
theories/Extract.vio: theories/Extract.v theories/Quote.vio theories/Quote51.vio theories/QuoteX.vio theories/QuoteMore.vio theories/Bracket.vio theories/Number.vio
theories/Extract.vos theories/Extract.vok theories/Extract.required_vos: theories/Extract.v theories/Quote.vos theories/Quote51.vos theories/QuoteX.vos theories/QuoteMore.vos theories/Bracket.vos theories/Number.vos
props/C04.vo props/C04.glob props/C04.v.beautified props/C04.required_vo: props/C04.v theories/Quote.vo theories/Quote51.vo theories/QuoteX.vo theories/QuoteAll.vo theories/QuoteMore.vo theories/Bracket.vo theories/BracketProof.vo theories/Number.vo
props/C04.vio: props/C04.v theories/Quote.vio theories/Quote51.vio theories/QuoteX.vio theories/QuoteAll.vio theories/QuoteMore.vio theories/Bracket.vio theories/BracketProof.vio theories/Number.vio
props/C04.vos props/C04.vok props/C04.required_vos: props/C04.v theories/Quote.vos theories/Quote51.vos theories/QuoteX.vos theories/QuoteAll.vos theories/QuoteMore.vos theories/Bracket.vos theories/BracketProof.vos theories/Number.vos
