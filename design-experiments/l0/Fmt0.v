(* L0 spike: StyLua at unbounded column width on a core fragment, byte-exact.  Unsupported shapes emit byte 255. *)
From Coq Require Import List Ascii String NArith Bool Arith.
Import ListNotations.
Open Scope char_scope.

Definition bytes := list ascii.
Definition eqc (a b : ascii) : bool := Ascii.eqb a b.
Definition str (s : string) : bytes := list_ascii_of_string s.
Definition LF : ascii := "010".
Definition CR : ascii := "013".
Definition UNSUP : ascii := "255".
Fixpoint beqb (a b : bytes) : bool :=
  match a, b with [], [] => true | x :: a', y :: b' => eqc x y && beqb a' b' | _, _ => false end.
Definition has (c : ascii) (s : bytes) : bool := existsb (eqc c) s.
Fixpoint join (sep : bytes) (l : list bytes) : bytes :=
  match l with [] => [] | [x] => x | x :: r => x ++ sep ++ join sep r end.
Fixpoint rep (n : nat) (s : bytes) : bytes := match n with O => [] | S n => s ++ rep n s end.

(* ---------------- syntax ---------------- *)
Inductive triv := Ws (s : bytes) | LCom (s : bytes) | BCom (d : nat) (s : bytes) | Sheb (s : bytes).
Inductive strk := SQ | DQ | BR.
Inductive unop := UNeg | UNot | ULen | UBNot.
Inductive param := PN (s : bytes) | PVar.

Inductive expr :=
| ENil | ETrue | EFalse | EVarargs
| ENum (s : bytes) | EStr (k : strk) (d : nat) (body : bytes) | EName (s : bytes)
| EParen (e : expr) | EUn (o : unop) (e : expr) | EBin (o : bytes) (l r : expr)
| EChain (p : prefix) (sufs : list suffix)
| EFunc (ps : list param) (b : block)
| ETbl (fs : list field) (nl : bool)
with prefix := PName (s : bytes) | PParen (e : expr)
with suffix := SDot (s : bytes) | SIdx (e : expr) | SCall (a : args) | SMeth (s : bytes) (a : args)
with args := AParen (es : list expr) | AStr (k : strk) (d : nat) (body : bytes) | ATbl (fs : list field) (nl : bool)
with field := FPos (e : expr) | FName (s : bytes) (e : expr) | FExpr (k v : expr)
with stmt :=
| SLocal (ns : list bytes) (es : list expr) | SAssign (vs es : list expr) | SCallStmt (e : expr)
| SDo (b : block) | SWhile (c : expr) (b : block) | SRepeat (b : block) (c : expr)
| SIf (c : expr) (b : block) (eis : list (expr * block)) (els : option block)
| SNumFor (v : bytes) (a b : expr) (st : option expr) (blk : block) | SGenFor (ns : list bytes) (es : list expr) (b : block)
| SFunction (ns : list bytes) (meth : option bytes) (ps : list param) (b : block)
| SLocalFunction (n : bytes) (ps : list param) (b : block)
| SReturn (es : list expr) | SBreak
with block := Block (items : list item)
with item := Item (lead : list triv) (s : stmt) (semi : option (list triv * list triv)) (trail : list triv).

Inductive qstyle := AutoDouble | AutoSingle | ForceDouble | ForceSingle.
Inductive cpmode := CPAlways | CPNoString | CPNoTable | CPNone | CPInput.
Record cfg := { c_nl : bytes; c_indent : bytes; c_quote : qstyle; c_cp : cpmode; c_sp_call : bool; c_sp_def : bool }.

(* ---------------- strings and numbers ---------------- *)
Definition bs : ascii := "\".
Definition sq : ascii := "'".
Definition dq : ascii := """".
Definition is_quote c := eqc c sq || eqc c dq.
Definition is_digit c := let n := N_of_ascii c in (N.leb 48 n && N.leb n 57)%bool.
Definition keep_escaped (c : ascii) : bool :=
  eqc c LF || eqc c CR || is_quote c || is_digit c || eqc c bs ||
  eqc c "a" || eqc c "b" || eqc c "f" || eqc c "n" || eqc c "r" || eqc c "t" ||
  eqc c "u" || eqc c "v" || eqc c "x" || eqc c "z".
Definition emit_quote (q c : ascii) : bytes := if eqc c q then [bs; c] else [c].
Fixpoint rewrite (q : ascii) (s : bytes) : bytes :=
  match s with
  | [] => []
  | c :: r =>
    if eqc c bs then
      match r with
      | [] => [c]
      | d :: r' => if is_quote d then emit_quote q d ++ rewrite q r'
                   else if keep_escaped d then c :: d :: rewrite q r' else d :: rewrite q r'
      end
    else if is_quote c then emit_quote q c ++ rewrite q r else c :: rewrite q r
  end.
Definition count (c : ascii) (s : bytes) : nat := List.length (filter (eqc c) s).
Definition choose (st : qstyle) (body : bytes) : ascii :=
  match st with
  | ForceDouble => dq | ForceSingle => sq
  | _ => let pref := match st with AutoSingle => sq | _ => dq end in
         let ns := count sq body in let nd := count dq body in
         if Nat.eqb ns nd then pref else if Nat.ltb nd ns then dq else sq
  end.
(* CRLF -> LF -> configured newline *)
Fixpoint conv_nl (nl : bytes) (s : bytes) : bytes :=
  match s with
  | c :: r => if eqc c CR then match r with d :: r' => if eqc d LF then nl ++ conv_nl nl r' else c :: conv_nl nl r | [] => [c] end
              else if eqc c LF then nl ++ conv_nl nl r else c :: conv_nl nl r
  | [] => []
  end.
Fixpoint eqs (n : nat) : bytes := match n with O => [] | S n => "=" :: eqs n end.
Definition fmt_string (c : cfg) (k : strk) (d : nat) (body : bytes) : bytes :=
  match k with
  | BR => "[" :: eqs d ++ "[" :: conv_nl (c_nl c) body ++ "]" :: eqs d ++ ["]"]
  | _ => let q := choose (c_quote c) body in q :: rewrite q body ++ [q]
  end.
Definition fmt_number (s : bytes) : bytes := match s with "." :: _ => "0" :: s | _ => s end.

(* ---------------- trivia ---------------- *)
Fixpoint rtrim (s : bytes) : bytes :=   (* str::trim_end on ASCII whitespace *)
  match s with
  | [] => []
  | c :: r => let r' := rtrim r in
              match r' with
              | [] => if eqc c " " || eqc c "009" || eqc c LF || eqc c CR || eqc c "011" || eqc c "012" then [] else [c]
              | _ => c :: r'
              end
  end.
Definition fmt_comment (c : cfg) (t : triv) : bytes :=
  match t with
  | LCom s => "-" :: "-" :: rtrim s
  | BCom d s => "-" :: "-" :: "[" :: eqs d ++ "[" :: conv_nl (c_nl c) s ++ "]" :: eqs d ++ ["]"]
  | Sheb s => rtrim s
  | Ws _ => []
  end.
Definition is_nl_ws (t : triv) : bool := match t with Ws s => has LF s | _ => false end.

Inductive otok := ONl | OTxt (s : bytes).
Definition render (c : cfg) (l : list otok) : bytes := flat_map (fun t => match t with ONl => c_nl c | OTxt s => s end) l.

(* load_token_trivia, Leading mode *)
Fixpoint lead_trivia (c : cfg) (ind : bytes) (cnt : nat) (l : list triv) : list otok :=
  match l with
  | [] => []
  | Ws s :: r => if has LF s then (if Nat.eqb cnt 0 then ONl :: lead_trivia c ind 1 r else lead_trivia c ind (S cnt) r)
                 else lead_trivia c ind cnt r
  | t :: r => let r' := match r with x :: r2 => if is_nl_ws x then r2 else r | [] => r end in
              OTxt ind :: OTxt (fmt_comment c t) :: ONl :: lead_trivia c ind 0 r'
  end.
Fixpoint drop_nl (l : list otok) : list otok := match l with ONl :: r => drop_nl r | _ => l end.

(* load_token_trivia, Trailing mode *)
Fixpoint trail_trivia (c : cfg) (l : list triv) : bytes :=
  match l with
  | [] => []
  | Ws s :: r => (match r with BCom _ _ :: _ => if has LF s then [] else [" "] | _ => [] end) ++ trail_trivia c r
  | LCom s :: r => " " :: fmt_comment c (LCom s) ++ trail_trivia c r
  | t :: r => fmt_comment c t ++ trail_trivia c r
  end.
(* comments of a removed semicolon are re-emitted raw by block.rs (no trimming, no newline conversion) *)
Definition raw_comment (t : triv) : bytes :=
  match t with
  | LCom s => "-" :: "-" :: s
  | BCom d s => "-" :: "-" :: "[" :: eqs d ++ "[" :: s ++ "]" :: eqs d ++ ["]"]
  | Sheb s => s
  | Ws _ => []
  end.
Definition comments_spaced (c : cfg) (l : list triv) : bytes :=
  flat_map (fun t => match t with Ws _ => [] | _ => " " :: raw_comment t end) l.

(* ---------------- expressions ---------------- *)
Inductive ctx := Std | Prefix | BL | BLE | UB.
Definition is_caret (o : bytes) := beqb o (str "^").
Fixpoint check (e : expr) (c : ctx) : bool :=
  match e with
  | EParen _ => true
  | EUn u x => match c with BLE => false | BL => (match u with UNot => false | _ => check x c end) | _ => check x c end
  | EBin _ _ _ => false
  | EChain _ sufs => negb (existsb (fun s => match s with SCall _ | SMeth _ _ => true | _ => false end) sufs)
                     || match rev sufs with (SCall _ | SMeth _ _) :: _ => false | _ => true end
  | EVarargs => false
  | _ => true
  end.
Definition is_call (e : expr) : bool :=
  match e with EChain _ sufs => match rev sufs with (SCall _ | SMeth _ _) :: _ => true | _ => false end | _ => false end.
Definition check' (e : expr) (c : ctx) : bool :=
  match e with EChain _ _ => negb (is_call e) | _ => check e c end.
Definition is_prefix_ctx c := match c with Prefix => true | _ => false end.
Fixpoint eff (e : expr) : expr := match e with EParen x => if check' x Std then eff x else e | _ => e end.
Definition is_br_string (e : expr) := match e with EStr BR _ _ => true | _ => false end.
Definition unop_txt (u : unop) : bytes := match u with UNeg => str "-" | UNot => str "not " | ULen => str "#" | UBNot => str "~" end.
Definition unsup : bytes := [UNSUP].

Definition params_txt (ps : list param) : bytes :=
  join (str ", ") (map (fun p => match p with PN s => s | PVar => str "..." end) ps).
Definition block_empty (b : block) : bool := match b with Block [] => true | _ => false end.

Section WithCfg.
Variable c : cfg.
Definition ind (lvl : nat) : bytes := rep lvl (c_indent c).

Definition starts_paren_stmt (s : stmt) : bool :=
  match s with
  | SCallStmt (EChain (PParen _) _) => true
  | SAssign (EChain (PParen _) _ :: _) _ => true
  | _ => false
  end.
Definition needs_semi (s : stmt) (next : option stmt) : bool :=
  match s with
  | SAssign _ _ | SLocal _ _ | SCallStmt _ | SRepeat _ _ => match next with Some n => starts_paren_stmt n | None => false end
  | _ => false
  end.


Definition field_forces_multiline (f : field) : bool :=
  match f with
  | FPos (EFunc _ b) | FName _ (EFunc _ b) | FExpr _ (EFunc _ b) => negb (block_empty b)
  | FExpr (EFunc _ b) _ => negb (block_empty b)
  | _ => false end.
(* table text from the already formatted fields (at the table's level, and one level deeper) *)
Definition tbl_txt (lvl : nat) (fs : list field) (nl : bool) (same deeper : list bytes) : bytes :=
  match fs with
  | [] => str "{}"
  | _ => if nl || existsb field_forces_multiline fs
         then "{" :: c_nl c ++ flat_map (fun t => ind (S lvl) ++ t ++ "," :: c_nl c) deeper ++ ind lvl ++ ["}"]
         else "{" :: " " :: join (str ", ") same ++ [" "; "}"]
  end.
Definition body_txt (lvl : nat) (b : block) (inner : bytes) : bytes :=
  if block_empty b then str " end" else c_nl c ++ inner ++ ind lvl ++ str "end".

Fixpoint fe (lvl : nat) (k : ctx) (e : expr) {struct e} : bytes :=
  match e with
  | ENil => str "nil" | ETrue => str "true" | EFalse => str "false" | EVarargs => str "..."
  | ENum s => fmt_number s
  | EStr q d body => fmt_string c q d body
  | EName s => s
  | EParen x => if check' x k && negb (is_prefix_ctx k) then fe lvl Std x else "(" :: fe lvl Std x ++ [")"]
  | EUn u x => let t := fe lvl UB x in
               let wrap := match u with UNeg => match t with "-" :: _ => true | "(" :: "-" :: _ => true | _ => false end | _ => false end in
               unop_txt u ++ (if wrap then "(" :: t ++ [")"] else t)
  | EBin o l r => fe lvl (if is_caret o then BLE else BL) l ++ " " :: o ++ " " :: fe lvl UB r
  | EChain p sufs =>
      (match p with PName s => s | PParen x => "(" :: fe lvl Std x ++ [")"] end)
      ++ (fix go (l : list suffix) : bytes :=
            match l with
            | [] => []
            | s :: r =>
              let obscure := match r with (SDot _ | SIdx _ | SMeth _ _) :: _ => true | _ => false end in
              (match s with
               | SDot n => "." :: n
               | SIdx x => if is_br_string x then "[" :: " " :: fe lvl Std x ++ [" "; "]"] else "[" :: fe lvl Std x ++ ["]"]
               | SCall a => fa lvl obscure a
               | SMeth n a => ":" :: n ++ fa lvl obscure a
               end) ++ go r
            end) sufs
  | EFunc ps b => str "function" ++ (if c_sp_def c then [" "] else []) ++ "(" :: params_txt ps ++ ")" :: body_txt lvl b (fblock (S lvl) b)
  | ETbl fs nl => tbl_txt lvl fs nl (map (ffield lvl) fs) (map (ffield (S lvl)) fs)
  end
with ffield (lvl : nat) (f : field) {struct f} : bytes :=
  match f with
  | FPos e => fe lvl Std e
  | FName n e => n ++ str " = " ++ fe lvl Std e
  | FExpr k v => (if is_br_string k then "[" :: " " :: fe lvl Std k ++ [" "; "]"] else "[" :: fe lvl Std k ++ ["]"]) ++ str " = " ++ fe lvl Std v
  end
with fa (lvl : nat) (obscure : bool) (a : args) {struct a} : bytes :=
  let sp := if c_sp_call c then [" "] else [] in
  let omit_str := match c_cp c with CPNoString | CPNone => negb obscure | _ => false end in
  let omit_tbl := match c_cp c with CPNoTable | CPNone => negb obscure | _ => false end in
  match a with
  | AParen es =>
      let sugar := match c_cp c, es with
                   | CPInput, _ => None
                   | _, [e1] => match e1 with
                                | EStr q d body => if omit_str then Some (sp ++ " " :: fmt_string c q d body) else None
                                | ETbl fs nl => if omit_tbl then Some (sp ++ " " :: tbl_txt lvl fs nl (map (ffield lvl) fs) (map (ffield (S lvl)) fs)) else None
                                | _ => None end
                   | _, _ => None end in
      match sugar with Some t => t | None => sp ++
      let ts := map (fe lvl Std) es in
      (* multi-line heuristic at unbounded width: mixture of expanded and plain arguments, or a complex argument *)
      let expanded (e : expr) := match eff e with EFunc _ b => negb (block_empty b) | ETbl _ _ => has LF (fe lvl Std e) | _ => false end in
      let plainish (e : expr) := match eff e with EFunc _ _ | ETbl _ _ => false | _ => true end in
      let fix st (s : nat) (l : list expr) : bool :=   (* 0 none, 1 seen multiline, 2 seen plain after multiline *)
        match l with
        | [] => false
        | e :: r => if expanded e then (if Nat.eqb s 2 then true else st (if Nat.eqb s 0 then 1 else s) r)
                    else if plainish e then st (if Nat.eqb s 1 then 2 else s) r else st s r
        end in
      let complex := (Nat.ltb 1 (List.length es)) &&
                     existsb (fun e => match eff e with EFunc _ _ | ETbl _ _ | EParen _ | EUn _ _ | EBin _ _ _ => false | _ => has LF (fe lvl Std e) end) es in
      let multi := st 0 es || complex in
      let hug := multi && match es with [e1] => match eff e1 with ETbl _ _ => true | _ => false end | _ => false end in
      (if multi && negb hug
      then "(" :: c_nl c ++ join ("," :: c_nl c) (map (fun e => ind (S lvl) ++ fe (S lvl) Std e) es) ++ c_nl c ++ ind lvl ++ [")"]
      else "(" :: join (str ", ") ts ++ [")"])
      end
  | AStr q d body =>
      if (match c_cp c with CPInput => true | _ => omit_str end) then sp ++ " " :: fmt_string c q d body
      else sp ++ "(" :: fmt_string c q d body ++ [")"]
  | ATbl fs nl =>
      let t := tbl_txt lvl fs nl (map (ffield lvl) fs) (map (ffield (S lvl)) fs) in
      if (match c_cp c with CPInput => true | _ => omit_tbl end) then sp ++ " " :: t else sp ++ "(" :: t ++ [")"]
  end
with fs_ (lvl : nat) (s : stmt) {struct s} : bytes :=
  let cond (e : expr) := match e with EParen x => fe lvl Std x | _ => fe lvl Std e end in
  let exprs (es : list expr) := join (str ", ") (map (fe lvl Std) es) in
  match s with
  | SLocal ns es => str "local " ++ join (str ", ") ns ++ (match es with [] => [] | _ => str " = " ++ exprs es end)
  | SAssign vs es => exprs vs ++ str " = " ++ exprs es
  | SCallStmt e => fe lvl Std e
  | SDo b => str "do" ++ c_nl c ++ fblock (S lvl) b ++ ind lvl ++ str "end"
  | SWhile e b => str "while " ++ cond e ++ str " do" ++ c_nl c ++ fblock (S lvl) b ++ ind lvl ++ str "end"
  | SRepeat b e => str "repeat" ++ c_nl c ++ fblock (S lvl) b ++ ind lvl ++ str "until " ++ cond e
  | SIf e b eis els =>
      str "if " ++ cond e ++ str " then" ++ c_nl c ++ fblock (S lvl) b
      ++ flat_map (fun '(ce, cb) => ind lvl ++ str "elseif " ++ cond ce ++ str " then" ++ c_nl c ++ fblock (S lvl) cb) eis
      ++ (match els with Some eb => ind lvl ++ str "else" ++ c_nl c ++ fblock (S lvl) eb | None => [] end)
      ++ ind lvl ++ str "end"
  | SNumFor v a b st blk =>
      str "for " ++ v ++ str " = " ++ fe lvl Std a ++ str ", " ++ fe lvl Std b
      ++ (match st with Some x => str ", " ++ fe lvl Std x | None => [] end) ++ str " do" ++ c_nl c ++ fblock (S lvl) blk ++ ind lvl ++ str "end"
  | SGenFor ns es b =>
      let hug := match es with
                 | [EChain _ [SCall (ATbl _ _)]] => true
                 | [EChain _ [SCall (AParen [x])]] => match x with ETbl _ _ => true | _ => false end
                 | _ => false end in
      if has LF (exprs es) && negb hug
      then str "for " ++ join (str ", ") ns ++ str " in" ++ c_nl c
           ++ join ("," :: c_nl c) (map (fun e => ind (S lvl) ++ fe (S lvl) Std e) es) ++ c_nl c
           ++ ind lvl ++ str "do" ++ c_nl c ++ fblock (S lvl) b ++ ind lvl ++ str "end"
      else str "for " ++ join (str ", ") ns ++ str " in " ++ exprs es ++ str " do" ++ c_nl c ++ fblock (S lvl) b ++ ind lvl ++ str "end"
  | SFunction ns meth ps b =>
      str "function " ++ join (str ".") ns ++ (match meth with Some m => ":" :: m | None => [] end) ++ (if c_sp_def c then [" "] else []) ++ "(" :: params_txt ps ++ ")" :: body_txt lvl b (fblock (S lvl) b)
  | SLocalFunction n ps b => str "local function " ++ n ++ (if c_sp_def c then [" "] else []) ++ "(" :: params_txt ps ++ ")" :: body_txt lvl b (fblock (S lvl) b)
  | SReturn es => match es with [] => str "return" | _ => str "return " ++ exprs es end
  | SBreak => str "break"
  end
with fblock (lvl : nat) (b : block) {struct b} : bytes :=
  match b with
  | Block items =>
      let fix go (first : bool) (l : list item) : bytes :=
        match l with
        | [] => []
        | Item lead s semi trail :: r =>
            let next := match r with Item _ s2 _ _ :: _ => Some s2 | [] => None end in
            let lt := lead_trivia c (ind lvl) 0 lead in
            let lt := if first then drop_nl lt else lt in
            let body := fs_ lvl s in
            let tail :=
              if needs_semi s next
              then ";" :: (match semi with Some (sl, st') => comments_spaced c sl ++ trail_trivia c st' | None => [] end) ++ trail_trivia c trail
              else trail_trivia c trail ++ (match semi with Some (sl, st') => comments_spaced c (sl ++ st') | None => [] end) in
            render c lt ++ ind lvl ++ body ++ tail ++ c_nl c ++ go false r
        end in
      go true items
  end.

Definition only_ws (l : list otok) : bool := forallb (fun t => match t with ONl => true | OTxt _ => false end) l.
Fixpoint pop_nl (l : list otok) : list otok :=
  match l with [] => [] | t :: r => match pop_nl r with [] => (match t with ONl => [] | _ => [t] end) | r' => t :: r' end end.
Definition feof (l : list triv) : bytes :=
  let lt := lead_trivia c [] 0 l in
  if forallb (fun t => match t with Ws _ => true | _ => false end) l then [] else render c (pop_nl lt) ++ c_nl c.
Definition fmt0 (b : block) (eof : list triv) : bytes := fblock 0 b ++ feof eof.
End WithCfg.

From Coq Require Extraction ExtrOcamlBasic ExtrOcamlString.
Extraction "fmt0.ml" fmt0.
