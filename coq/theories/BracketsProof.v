(* Tie 1 for the blank that keeps a long-bracket string away from `[`: the function generated from /repo's is_brackets_string
   (src/formatters/expression.rs) by rs2v is the L0 model's [bstr] on the image of L0 expressions.  Re-proved on every run
   against the regenerated SVgen.BracketsString. *)
From Coq Require Import List Bool String.
Import ListNotations.
Open Scope string_scope.
From SV Require Import FmAstBrk Fmt0.
From SVgen Require Import BracketsString.

Definition long_tok (n : nat) : TokenReference := TokenType_StringLiteral tt n StringLiteralQuoteType_Brackets.
Definition quoted_tok : TokenReference := TokenType_StringLiteral tt 0 StringLiteralQuoteType_Double.
Fixpoint emb (e : exp) : Expression :=
  match e with
  | EBrk n _ => Expression_String (long_tok n)
  | EStr _ => Expression_String quoted_tok
  | EParen x => Expression_Parentheses tt (emb x)
  | EBin _ l r => Expression_BinaryOperator (emb l) tt (emb r)
  | _ => Expression_Other
  end.
Theorem generated_is_brackets_string_is_bstr : forall e, is_brackets_string (emb e) = bstr e.
Proof. induction e; cbn [emb is_brackets_string bstr]; try reflexivity; assumption. Qed.
(* what the rule means: the leftmost leaf - through parentheses and left operands - is a long-bracket string *)
Fixpoint leftmost (e : exp) : exp := match e with EParen x => leftmost x | EBin _ l _ => leftmost l | _ => e end.
Theorem bstr_is_leftmost_long e : bstr e = match leftmost e with EBrk _ _ => true | _ => false end.
Proof. induction e; cbn [bstr leftmost]; try reflexivity; assumption. Qed.
(* ... and what the model does with it: blanks on both sides of the key exactly then *)
Theorem brackets_of_a_long_string c d n b : brk (bstr (EBrk n b)) (pexp c d (EBrk n b)) = [kw "["; sp; Lex.TStr Lex.QBrackets n b; sp; kw "]"].
Proof. reflexivity. Qed.
Theorem brackets_of_a_name c d x : brk (bstr (EName x)) (pexp c d (EName x)) = [kw "["; Lex.TIdent x; kw "]"].
Proof. reflexivity. Qed.
