From Coq Require Import List Arith Lia Bool.
Import ListNotations.
From SV Require Import DiffJson.

Section L.
Context {A : Type}.
Lemma skipn_app_len (a b : list A) : skipn (length a) (a ++ b) = b.
Proof. induction a; cbn; auto. Qed.
Lemma firstn_app_len (a b : list A) : firstn (length a) (a ++ b) = a.
Proof. induction a; cbn; f_equal; auto. Qed.
Lemma skipn_add n (a b : list A) : skipn (length a + n) (a ++ b) = skipn n b.
Proof. induction a; cbn; auto. Qed.

End L.
Lemma firstn_skipn_mid {A} (pre kept rest : list A) :
  firstn (length pre + length kept - length pre) (skipn (length pre) (pre ++ kept ++ rest)) = kept.
Proof. replace (length pre + length kept - length pre) with (length kept) by lia.
  rewrite skipn_app_len. apply firstn_app_len. Qed.

Lemma skipn_two {A} (pre kept rest : list A) :
  skipn (length pre + length kept) (pre ++ kept ++ rest) = rest.
Proof. rewrite skipn_add. apply skipn_app_len. Qed.

(* invariant: [pre] copied already, [kept] = equal lines seen since the cursor, not copied yet *)
Lemma apply_inv line (ss : list (seg line)) : forall pre kept ni c k,
  c = length pre -> k = length pre + length kept ->
  apply_from line c (mismatches line false k ni ss) (pre ++ kept ++ olds line ss) = kept ++ news line ss.
Proof.
  induction ss as [|s r IH]; intros pre kept ni c k Hc Hk; subst c k.
  - cbn [mismatches apply_from]. unfold olds, news; cbn [flat_map]. rewrite !app_nil_r.
    apply skipn_app_len.
  - destruct s as [ls|d ds|i is_|d ds i is_]; cbn [mismatches news olds flat_map new_of old_of];
      fold (olds line r); fold (news line r).
    + (* Keep *)
      replace (kept ++ ls ++ news line r) with ((kept ++ ls) ++ news line r) by (rewrite <- !app_assoc; reflexivity).
      replace (pre ++ kept ++ ls ++ olds line r) with (pre ++ (kept ++ ls) ++ olds line r) by (rewrite <- !app_assoc; reflexivity).
      apply IH; [reflexivity | rewrite app_length; lia].
    + (* Del *)
      cbn [apply_from os oe expected original sel].
      rewrite firstn_skipn_mid. cbn [app]. f_equal.
      pose proof (IH (pre ++ kept ++ d :: ds) [] ni (S (length pre + length kept + S (length ds) - 1))
                     (length pre + length kept + S (length ds))) as H.
      assert (E : (pre ++ kept ++ d :: ds) ++ [] ++ olds line r = pre ++ kept ++ d :: ds ++ olds line r).
      { cbn [app]. rewrite <- !app_assoc. reflexivity. }
      rewrite E in H. cbn [app] in H. apply H; rewrite !app_length; cbn [length]; lia.
    + (* Ins *)
      cbn [apply_from os oe expected original sel].
      rewrite firstn_skipn_mid. cbn [app]. f_equal. f_equal. f_equal.
      pose proof (IH (pre ++ kept) [] (ni + S (length is_)) (length pre + length kept) (length pre + length kept)) as H.
      assert (E : (pre ++ kept) ++ [] ++ olds line r = pre ++ kept ++ olds line r).
      { cbn [app]. rewrite <- !app_assoc. reflexivity. }
      rewrite E in H. cbn [app] in H. apply H; rewrite !app_length; cbn [length]; lia.
    + (* Rep *)
      cbn [apply_from os oe expected original].
      rewrite firstn_skipn_mid. cbn [app]. f_equal. f_equal. f_equal.
      pose proof (IH (pre ++ kept ++ d :: ds) [] (ni + S (length is_)) (S (length pre + length kept + S (length ds) - 1))
                     (length pre + length kept + S (length ds))) as H.
      assert (E : (pre ++ kept ++ d :: ds) ++ [] ++ olds line r = pre ++ kept ++ d :: ds ++ olds line r).
      { cbn [app]. rewrite <- !app_assoc. reflexivity. }
      rewrite E in H. cbn [app] in H. apply H; rewrite !app_length; cbn [length]; lia.
Qed.

Theorem json_reconstructs line (ss : list (seg line)) :
  apply_json line (mismatches line false 0 0 ss) (olds line ss) = news line ss.
Proof. exact (apply_inv line ss [] [] 0 0 0 eq_refl eq_refl). Qed.
Print Assumptions json_reconstructs.

(* the code as it stands takes only the first inserted line: refuted by a two-line insertion *)
Theorem json_reconstructs_refuted :
  exists ss : list (seg nat), apply_json nat (mismatches nat true 0 0 ss) (olds nat ss) <> news nat ss.
Proof. exists [Ins 1 [2]; Keep [3]]. vm_compute. discriminate. Qed.

(* a diff is printed exactly when the script has a change; a script without one leaves the file as it is *)
Definition is_keep {line} (s : seg line) : bool := match s with Keep _ => true | _ => false end.
Theorem no_mismatch_iff_all_keep line fo (ss : list (seg line)) : forall oi ni,
  mismatches line fo oi ni ss = [] <-> forallb is_keep ss = true.
Proof.
  induction ss as [|s r IH]; intros oi ni; cbn [mismatches forallb]; [tauto|].
  destruct s; cbn [is_keep andb]; try (split; intros H; discriminate). apply IH.
Qed.
Theorem all_keep_equal line (ss : list (seg line)) : forallb is_keep ss = true -> olds line ss = news line ss.
Proof.
  induction ss as [|s r IH]; [reflexivity|]. cbn [forallb]. intros H. apply andb_true_iff in H. destruct H as [K H].
  destruct s; try discriminate. unfold olds, news in *. cbn [flat_map old_of new_of]. rewrite (IH H). reflexivity.
Qed.

(* the literal builder on a script with running indices is the builder the theorems are about *)
Theorem mismatches_at_annotate line fo (ss : list (seg line)) : forall oi ni,
  mismatches_at line fo (annotate line oi ni ss) = mismatches line fo oi ni ss.
Proof.
  induction ss as [|s r IH]; intros oi ni; [reflexivity|].
  destruct s; cbn [annotate mismatches_at mismatches old_of new_of length]; rewrite ?IH, ?Nat.add_0_r; reflexivity.
Qed.
