(* C18 judge.  Per file: F (old, new from the library), OPS (similar's script), J (the binary's JSON mismatches),
   U (the binary's unified diff text), SUM / STD (listed / printed), then END.
   (K) DiffJson.mismatches on the script = the binary's mismatches
   (S) DiffJson.apply_json (the binary's mismatches) old = new ; DiffUnified.apply (parsed patch text) old = new ;
       a diff / listing is present exactly when old <> new *)
open Util
open Datatypes

let split_lines (s : string) : string list =
  let n = SS.length s in
  let rec go st i acc =
    if i >= n then L.rev (if st < n then SS.sub s st (n - st) :: acc else acc)
    else if (SS.get s (i)) = '\n' then go (i + 1) (i + 1) (SS.sub s st (i + 1 - st) :: acc)
    else go st (i + 1) acc in
  go 0 0 []
let str cl = SS.init (L.length cl) (L.nth cl)
let bytes_of_hex h = let cl = unhex h in let b = Buffer.create 64 in L.iter (Buffer.add_char b) cl; Buffer.contents b
let rec sub l i n = if n = 0 then [] else if i > 0 then sub (L.tl l) (i - 1) n else L.hd l :: sub (L.tl l) 0 (n - 1)

let shifted = ref 0
let files = ref 0 and differing = ref 0 and bad = ref 0 and hunks = ref 0 and mism = ref 0 and samples = ref 0
let report kind name = incr bad; Printf.printf "BAD %s %s\n" kind name

type st = { mutable name : string; mutable old_ : string; mutable new_ : string; mutable status : string; mutable ops : string list;
            mutable j : (int * int * int * int * string * string) list option; mutable u : string option;
            mutable sum : bool option; mutable std : bool option }
let cur = { name = ""; old_ = ""; new_ = ""; status = ""; ops = []; j = None; u = None; sum = None; std = None }

let segs_of old_lines new_lines ops =
  L.map (fun w -> match SS.split_on_char ':' w with
    | ["E"; oi; ni; n] -> ((int_to_nat (int_of_string oi), int_to_nat (int_of_string ni)), DiffJson.Keep (sub old_lines (int_of_string oi) (int_of_string n)))
    | ["D"; oi; ol; ni] -> (match sub old_lines (int_of_string oi) (int_of_string ol) with
                            | d :: ds -> ((int_to_nat (int_of_string oi), int_to_nat (int_of_string ni)), DiffJson.Del (d, ds)) | [] -> failwith "empty delete")
    | ["I"; oi; ni; nl] -> (match sub new_lines (int_of_string ni) (int_of_string nl) with
                            | i :: is -> ((int_to_nat (int_of_string oi), int_to_nat (int_of_string ni)), DiffJson.Ins (i, is)) | [] -> failwith "empty insert")
    | ["R"; oi; ol; ni; nl] ->
      (match sub old_lines (int_of_string oi) (int_of_string ol), sub new_lines (int_of_string ni) (int_of_string nl) with
       | d :: ds, i :: is -> ((int_to_nat (int_of_string oi), int_to_nat (int_of_string ni)), DiffJson.Rep (d, ds, i, is)) | _ -> failwith "empty replace")
    | _ -> failwith ("op " ^ w)) ops

(* unified patch text -> view items; returns None when the text is not a well-formed patch for this old file *)
let parse_unified (text : string) (old_lines : string list) : string DiffUnified.vitem list option =
  let lines = split_lines text in
  match lines with
  | h1 :: h2 :: rest when SS.length h1 >= 4 && SS.sub h1 0 4 = "--- " && SS.length h2 >= 4 && SS.sub h2 0 4 = "+++ " ->
    let olda = Array.of_list old_lines in
    let consumed = ref 0 and items = ref [] and ok = ref true in
    let strip_nl s = if SS.length s > 0 && (SS.get s (SS.length s - 1)) = '\n' then SS.sub s 0 (SS.length s - 1) else s in
    let check_old content = (if !consumed >= Array.length olda || olda.(!consumed) <> content then ok := false); incr consumed in
    L.iter (fun l ->
      if SS.length l >= 2 && SS.sub l 0 2 = "@@" then begin
        incr hunks;
        (try Scanf.sscanf l "@@ -%d,%d +%d,%d @@" (fun a b _ _ -> let gap = (if b = 0 then a else a - 1) - !consumed in
              if gap < 0 then ok := false else (items := DiffUnified.Gap (int_to_nat gap) :: !items; consumed := !consumed + gap))
         with _ -> (try Scanf.sscanf l "@@ -%d,%d +%d @@" (fun a b _ -> let gap = (if b = 0 then a else a - 1) - !consumed in
              if gap < 0 then ok := false else (items := DiffUnified.Gap (int_to_nat gap) :: !items; consumed := !consumed + gap))
         with _ -> (try Scanf.sscanf l "@@ -%d +%d,%d @@" (fun a _ _ -> let gap = a - 1 - !consumed in
              if gap < 0 then ok := false else (items := DiffUnified.Gap (int_to_nat gap) :: !items; consumed := !consumed + gap))
         with _ -> (try Scanf.sscanf l "@@ -%d +%d @@" (fun a _ -> let gap = a - 1 - !consumed in
              if gap < 0 then ok := false else (items := DiffUnified.Gap (int_to_nat gap) :: !items; consumed := !consumed + gap))
         with _ -> ok := false))))
      end else if l = "\\ No newline at end of file\n" || l = "\\ No newline at end of file" then begin
        match !items with
        | DiffUnified.Show (t, c) :: r ->
          (* the previous line has no terminator: undo the old-line comparison with the stripped text *)
          let c' = strip_nl c in
          (match t with
           | DiffUnified.Add -> ()
           | _ -> if !consumed = 0 || olda.(!consumed - 1) <> c' then ok := false);
          items := DiffUnified.Show (t, c') :: r
        | _ -> ok := false
      end else if SS.length l >= 1 then begin
        let content = SS.sub l 1 (SS.length l - 1) in
        match (SS.get l (0)) with
        | ' ' -> items := DiffUnified.Show (DiffUnified.Ctx, content) :: !items; incr consumed
        | '-' -> items := DiffUnified.Show (DiffUnified.Del, content) :: !items; incr consumed
        | '+' -> items := DiffUnified.Show (DiffUnified.Add, content) :: !items
        | _ -> ok := false
      end else ok := false) rest;
    (* every shown old line must be the old file's line at that position *)
    let pos = ref 0 in
    L.iter (function
      | DiffUnified.Gap k -> pos := !pos + nat_to_int k
      | DiffUnified.Show (DiffUnified.Add, _) -> ()
      | DiffUnified.Show (_, c) -> (if !pos >= Array.length olda || olda.(!pos) <> c then ok := false); incr pos) (L.rev !items);
    ignore check_old;
    if !ok then Some (L.rev !items) else None
  | _ -> None

let finish () =
  incr files;
  let name = cur.name in
  if cur.status <> "ok" then begin
    (* a file the library cannot format: the binary must not print a diff for it (C13 judges the status) *)
    if cur.j <> None || cur.u <> None then report "diff-for-unformattable-file" name
  end else begin
    let old_lines = split_lines cur.old_ and new_lines = split_lines cur.new_ in
    let changed = cur.old_ <> cur.new_ in
    if changed then incr differing;
    (try
      let isegs = segs_of old_lines new_lines cur.ops in
      let segs = L.map snd isegs in
      (* the theorems' hypothesis on the oracle: its two projections are the texts, its indices the running positions *)
      if DiffJson.olds segs <> old_lines || DiffJson.news segs <> new_lines then report "script-not-valid" name;
      let running = DiffJson.annotate O O segs = isegs in
      if not running then incr shifted;
      (* the builder counts positions itself (running indices): exactly the function the reconstruction theorem is about *)
      let model = DiffJson.mismatches false Datatypes.O Datatypes.O segs in
      (match cur.j with
       | None -> if model <> [] then report "json-missing" name
       | Some js ->
         mism := !mism + L.length js;
         if not changed then report "json-for-unchanged-file" name;
         let model' = L.map (fun (m : string DiffJson.mismatch) ->
           (nat_to_int m.DiffJson.os, nat_to_int m.DiffJson.oe, nat_to_int m.DiffJson.es, nat_to_int m.DiffJson.ee,
            SS.concat "" m.DiffJson.original, SS.concat "" m.DiffJson.expected)) model in
         if model' <> js then report "json-differs-from-model" name;
         (* the consumer, on the binary's own output: expected text as one pseudo-line *)
         let ms = L.map (fun (a, b, c, d, o, e) ->
           { DiffJson.os = int_to_nat a; oe = int_to_nat b; es = int_to_nat c; ee = int_to_nat d;
             original = (if o = "" then [] else [o]); expected = (if e = "" then [] else [e]) }) js in
         if SS.concat "" (DiffJson.apply_json ms old_lines) <> cur.new_ then report "json-does-not-reconstruct" name)
    with Failure m -> report ("script-unreadable:" ^ m) name);
    (match cur.u with
     | None -> if changed then report "unified-missing" name
     | Some text ->
       if not changed then report "unified-for-unchanged-file" name;
       (match parse_unified text old_lines with
        | None -> report "unified-not-a-patch-of-the-file" name
        | Some v ->
          if SS.concat "" (DiffUnified.apply v old_lines) <> cur.new_ then report "unified-does-not-reconstruct" name;
          if DiffUnified.apply (DiffUnified.merge v) old_lines <> DiffUnified.apply v old_lines then report "merge" name));
    (match cur.sum with Some listed -> if listed <> changed then report "summary-listing" name | None -> ());
    (match cur.std with Some printed -> if printed <> changed then report "standard-diff-presence" name | None -> ());
    if changed && !samples < 6 then (incr samples; Printf.printf "SAMPLE %s old_lines=%d new_lines=%d mismatches=%d\n" name (L.length old_lines) (L.length new_lines) (match cur.j with Some j -> L.length j | None -> 0))
  end

let rec six = function
  | a :: b :: c :: d :: o :: e :: r -> (int_of_string a, int_of_string b, int_of_string c, int_of_string d, bytes_of_hex o, bytes_of_hex e) :: six r
  | [] -> [] | _ -> failwith "six"

let handle line =
  match words line with
  | "F" :: name :: status :: rest ->
    cur.name <- name; cur.status <- status; cur.ops <- []; cur.j <- None; cur.u <- None; cur.sum <- None; cur.std <- None;
    (match rest with [o; n] -> cur.old_ <- bytes_of_hex o; cur.new_ <- bytes_of_hex n | _ -> cur.old_ <- ""; cur.new_ <- "")
  | "OPS" :: _ :: ops -> cur.ops <- ops
  | "J" :: _ :: rest -> cur.j <- Some (six rest)
  | "U" :: _ :: [text] -> cur.u <- Some (bytes_of_hex text)
  | "SUM" :: _ :: [v] -> cur.sum <- Some (v = "listed")
  | "STD" :: _ :: [v] -> cur.std <- Some (v = "printed")
  | "END" :: _ -> finish ()
  | [] -> ()
  | _ -> report "unreadable-record" line

let () =
  iter_lines handle;
  Printf.printf "SUMMARY files=%d differing=%d json_mismatches=%d unified_hunks=%d scripts_with_shifted_indices=%d bad=%d\n" !files !differing !mism !hunks !shifted !bad
