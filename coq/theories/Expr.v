(* (S) The operator grammar of Lua/Luau expressions: trees, tokens, a precedence-climbing parser,
   the canonical-form predicate and the semantic tree.  Used by C02 and C05. *)
From Coq Require Import List Arith Bool Lia.
Import ListNotations.

Inductive bop := Or | And | Lt | Gt | Le | Ge | Ne | Eq | BOr | BXor | BAnd | Shl | Shr | Concat
               | Add | Sub | Mul | Div | IDiv | Mod | Pow.
(* full_moon's table (ast/mod.rs make_bin_op!) *)
Definition prec (b : bop) : nat :=
  match b with
  | Or => 1 | And => 2 | Lt | Gt | Le | Ge | Ne | Eq => 3 | BOr => 4 | BXor => 5 | BAnd => 6 | Shl | Shr => 7
  | Concat => 8 | Add | Sub => 9 | Mul | Div | IDiv | Mod => 10 | Pow => 12
  end.
Definition rassoc (b : bop) : bool := match b with Concat | Pow => true | _ => false end.
(* minimal precedence an operator may have to continue the right operand of b *)
Definition q (b : bop) : nat := if rassoc b then prec b else S (prec b).
Definition uprec := 11.
Inductive uop := Neg | Not | Len | BNot.

(* Atom: any closed primary (name, literal, table, function, index/call chain that is single-valued is also fine here);
   Multi: a function call or `...` (multi-valued: parentheses around it truncate);
   Assert e: Luau `e :: T`;  IfE e: Luau `if c then a else e` (only the right-open else branch matters). *)
Inductive expr :=
| Atom | Multi | Paren (e : expr) | Un (u : uop) (e : expr) | Bin (b : bop) (l r : expr)
| Assert (e : expr) | IfE (e : expr).

Inductive tok := TA | TM | TL | TR | TU (u : uop) | TB (b : bop) | TAs | TIf.

Fixpoint tokens (e : expr) : list tok :=
  match e with
  | Atom => [TA] | Multi => [TM]
  | Paren e => TL :: tokens e ++ [TR]
  | Un u e => TU u :: tokens e
  | Bin b l r => tokens l ++ TB b :: tokens r
  | Assert e => tokens e ++ [TAs]
  | IfE e => TIf :: tokens e
  end.

(* Precedence climbing.  pprim reads one primary (with its optional type assertion, as full_moon's
   parse_primary_expression does, unary operators and if-expressions included). *)
Definition wrap_assert (r : option (expr * list tok)) : option (expr * list tok) :=
  match r with Some (e, TAs :: r') => Some (Assert e, r') | other => other end.
Fixpoint pexpr (f p : nat) (ts : list tok) {struct f} : option (expr * list tok) :=
  match f with O => None | S f =>
    match pprim f ts with Some (l, r) => ploop f l p r | None => None end end
with ploop (f : nat) (lhs : expr) (p : nat) (ts : list tok) {struct f} : option (expr * list tok) :=
  match f with O => None | S f =>
    match ts with
    | TB b :: r => if p <=? prec b then
                     match pexpr f (q b) r with
                     | Some (rhs, r') => ploop f (Bin b lhs rhs) p r'
                     | None => None end
                   else Some (lhs, ts)
    | _ => Some (lhs, ts)
    end end
with pprim (f : nat) (ts : list tok) {struct f} : option (expr * list tok) :=
  match f with O => None | S f =>
    wrap_assert
    match ts with
    | TA :: r => Some (Atom, r)
    | TM :: r => Some (Multi, r)
    | TL :: r => match pexpr f 0 r with Some (e, TR :: r') => Some (Paren e, r') | _ => None end
    | TU u :: r => match pprim f r with
                   | Some (a, r') => match ploop f a uprec r' with Some (e, r'') => Some (Un u e, r'') | None => None end
                   | None => None end
    | TIf :: r => match pexpr f 0 r with Some (e, r') => Some (IfE e, r') | None => None end
    | _ => None
    end end.

Fixpoint size (e : expr) : nat :=
  match e with
  | Atom | Multi => 1 | Paren e | Un _ e | Assert e | IfE e => S (size e) | Bin _ l r => S (size l + size r)
  end.
Definition parse (ts : list tok) : option expr :=
  match pexpr (4 * length ts + 4) 0 ts with Some (e, []) => Some e | _ => None end.

(* ---- canonical form: the trees the parser can return ---- *)
Definition inf := 100.
(* the loosest precedence that still gets swallowed by an open construct on the right spine *)
Fixpoint rmin (e : expr) : nat :=
  match e with
  | Atom | Multi | Paren _ | Assert _ => inf
  | Un _ a => Nat.min uprec (rmin a)
  | Bin b _ r => Nat.min (q b) (rmin r)
  | IfE _ => 0
  end.
Definition top_ge (k : nat) (e : expr) : bool := match e with Bin c _ _ => k <=? prec c | _ => true end.
Definition closed (e : expr) : bool := match e with Atom | Multi | Paren _ => true | _ => false end.
Fixpoint can (e : expr) : bool :=
  match e with
  | Atom | Multi => true
  | Paren e => can e
  | Un _ a => can a && top_ge uprec a
  | Bin b l r => can l && can r && (prec b <? rmin l) && top_ge (q b) r
  | Assert a => can a && closed a   (* `-x :: T :: U` and `if .. else b :: T :: U` are left out *)
  | IfE a => can a
  end.

(* ---- semantic tree: redundant parentheses erased; the truncation of a multi-value is kept ---- *)
Inductive sem := SAtom | SMulti | STrunc | SUn (u : uop) (s : sem) | SBin (b : bop) (l r : sem) | SAssert (s : sem) | SIf (s : sem).
Fixpoint Sm (e : expr) : sem :=
  match e with
  | Atom => SAtom | Multi => SMulti
  | Paren x => match Sm x with SMulti => STrunc | s => s end
  | Un u x => SUn u (Sm x) | Bin b l r => SBin b (Sm l) (Sm r)
  | Assert x => SAssert (Sm x) | IfE x => SIf (Sm x)
  end.

(* a unary minus directly followed by a token that starts with a minus sign *)
Fixpoint lmost_neg (e : expr) : bool :=
  match e with Un Neg _ => true | Bin _ l _ => lmost_neg l | Assert a => lmost_neg a | _ => false end.
Fixpoint no_double_minus (e : expr) : bool :=
  match e with
  | Atom | Multi => true
  | Paren x | Assert x | IfE x => no_double_minus x
  | Un u x => no_double_minus x && negb (match u with Neg => lmost_neg x | _ => false end)
  | Bin _ l r => no_double_minus l && no_double_minus r
  end.
