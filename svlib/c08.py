"""C08 - ignore regions verbatim / C09 - range formatting (DESIGN 5/C08, 5/C09)."""
from .core import *

TEXT = {
 "C08": dict(sub="c08", rule="programs from the generator (6 dialects) with `-- stylua: ignore` before random statements at any nesting depth, `ignore start` / `ignore end` regions inside blocks, and ignored fields of a multi-line table (one of them holding a function with a body); one program in two starts with require groups under an ignore region that opens / closes in front of a require or of an ordinary statement; every program under its default configuration, a random configuration, the default configuration with sort_requires, and the default configuration with a range drawn anywhere (an ignored node is verbatim whatever the range); "
             "each under its default and one random configuration; every outermost ignored statement (with its semicolon) and table field is cut out of input and output by byte position and compared",
             corr="byte equality of every ignored node's source slice with the slice of the node at the same block path in the re-parsed output; statement counts per block equal"),
 "C09": dict(sub="c09", rule="programs from the generator, each under 2 configurations x 4 range shapes (exactly one statement; from one statement to another; arbitrary bytes, mid-token; empty); every statement of every block classified by byte position",
             corr="a statement not wholly inside the range (containing no in-range statement) is byte-identical; a statement wholly inside equals its text in the whole-file run; the bytes before the first and after the last affected statement are unchanged"),
}
def run(res, prop="C08"):
    t = TEXT[prop]
    extra = 2 if prop == "C08" else 3      # the byte comparison, the translation of should_format_node, (C09) its tie
    t_ok, t_log = rs2v("should_format_node")
    proof = proof_stage(res, prop, extra_obligations=extra) if t_ok else dict(ok=False, discharged=0, theorems=[], log=t_log, broken_at="rs2v: " + t_log.strip()[-300:])
    if not t_ok: res.coverage.update(obligations=extra, discharged=0, checker_cmd="rs2v /repo coq/gen", trusted_base=list(TRUSTED_BASE))
    build_harness(); gen_ok = build_ml()
    n = 3000 if res.tier == "quick" else 40000
    lines, errs = run_pipeline_sharded(lambda i, k: ([SVH, t["sub"], "--seed", str(res.seed), "--n", str(n), "--shard", "%d/%d" % (i, k)], [driver("drv_blk")]))
    tot, stats, bads, samples = {}, {}, [], []
    for l in lines:
        if l.startswith("SUMMARY"):
            for k, v in parse_kv(l).items(): tot[k] = tot.get(k, 0) + int(v)
        elif l.startswith("STATS"):
            for k, v in parse_kv(l).items(): stats[k] = stats.get(k, 0) + int(v)
        elif l.startswith("BAD"): bads.append(l.split()[1:3])
        elif l.startswith("SAMPLE") and len(samples) < 5: samples.append(l[7:][:300])
    pos = {}
    if prop == "C09":
        # Tie of the regenerated decision: the kernel applied to the positions the binary sees = how the binary treated the statement
        plines, perrs = (run_pipeline_sharded(lambda i, k: ([SVH, "c09", "--seed", str(res.seed + 7), "--n", str(n // 5), "--pos-only", "--shard", "%d/%d" % (i, k)], [driver("drv_pos")]))
                         if gen_ok and os.path.exists(driver("drv_pos")) else ([], ["the regenerated kernel gen/ShouldFormat.v could not be extracted"]))
        for l in plines:
            if l.startswith("SUMMARY"):
                for k, v in parse_kv(l).items(): pos[k] = pos.get(k, 0) + int(v)
            elif l.startswith("BAD"):
                w = l.split(); bads.append(["decision:" + w[1], w[3]])
        errs += perrs
        if not pos.get("records"): errs.append("no POS records")
    tie_ok = not errs and not bads and tot.get("cases", 0) > 0 and tot.get("cases") == stats.get("cases")
    if proof["ok"] and tie_ok: res.coverage["discharged"] = proof["discharged"] + extra
    res.coverage["kernels_translated"] = ["src/context.rs :: Context::should_format_node -> coq/gen/ShouldFormat.v (rs2v; the scan of the leading comments is an oracle parameter)"]
    nodes = sum(v for k, v in tot.items() if k.startswith("nodes_"))
    res.coverage.update(evaluations=tot.get("cases", 0), distinct_nontrivial=nodes - tot.get("nodes_outside", 0) if prop == "C09" else nodes,
                        rule=t["rule"] + "; non-trivial = compared nodes that are ignored / inside the range", samples=samples or ["-"], input_distribution=dict(tot, decision_tie=pos), correspondence=t["corr"] + ("; the regenerated should_format_node applied to (range, node positions) says Normal exactly for the statements treated as inside (%d records, %d on a range boundary)" % (pos.get("records", 0), pos.get("on_a_range_boundary", 0)) if prop == "C09" else ""))
    res.assumptions = ["which statements are ignored is computed in the harness by an independent transcription of context.rs (directive comments in leading trivia; start/end state per block; single-statement ignore)",
                       "statements are located by full_moon's byte positions in input and in re-parsed output"]
    for e in known_findings(prop):
        key = {"F-C09-anonymous-function": "known_anonymous-function", "F-C09-end-position": "known_end-position", "F-C09-collapsed-parent": "known_collapsed-parent"}.get(e.get("id"))
        if key and tot.get(key, 0) > 0: res.known.append("%s (%d statements in this run)" % (e["what"], tot[key]))
    if not proof["ok"] or not tie_ok:
        if bads:
            seen = set()
            for kind, cid in bads:
                k = kind.split(":")[0]
                if k in seen or len(seen) >= 4: continue
                seen.add(k)
                res.violation(dict(kind="input", check=kind, case=cid, seed=res.seed, n=n, harness=t["sub"], expected=t["corr"]))
        else:
            res.violation(dict(kind="obligation", obligation=dict(theorem=proof.get("broken_at", prop), log=proof["log"][-2500:] + "; ".join(errs))), no_input=True)
    return res
def replay(payload, prop="C08"):
    build_harness(); build_ml()
    k = int(payload["case"].split(".")[0][1:])
    h = [SVH, payload["harness"], "--seed", str(payload["seed"]), "--n", str(k + 1), "--shard", "%d/%d" % (k % 1000003, 1000003)]
    lines, errs = run_pipeline_sharded(lambda i, n: (h, [driver("drv_blk")]), shards=1)
    print("\n".join(l[:300] for l in lines if not l.startswith("SAMPLE")))
    return 1 if errs or any(l.startswith("BAD") for l in lines) else 0
