#!/bin/bash
# re-runs every kept seeded change against the check(s) named in its meta.json (check_run) and prints DETECTED / MISSED per check;
# /repo must be clean and no `vp run` may be using it.  usage: tools/all_seeds.sh [seed name ...]
cd /verif
git -C /repo status --short | grep -q . && { echo "/repo has uncommitted changes"; exit 2; }
seeds="$@"; [ -z "$seeds" ] && seeds=$(ls seeded)
for s in $seeds; do
  props=$(python3 -c "
import json,sys
m=json.load(open('/verif/seeded/$s/meta.json')); w=m.get('check_run','').split()
print(' '.join(x for x in w if len(x)==3 and x[0]=='C' and x[1:].isdigit()) or m.get('property',''))")
  git -C /repo apply "/verif/seeded/$s/patch.diff" || { echo "$s: patch does not apply"; continue; }
  for p in $props; do
    out=$(./sv check $p 2>&1 | grep -v "^KNOWN-FINDING" | tail -n 1)
    case "$out" in *VIOLATED*) echo "$s $p DETECTED";; *) echo "$s $p MISSED: $out";; esac
  done
  git -C /repo checkout -- .
done
git -C /repo status --short | head -3
# the evidence files these runs wrote describe changed trees: put the committed ones (clean runs) back
git -C /verif checkout -- evidence
