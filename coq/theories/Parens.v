(* (K) StyLua's parenthesis rule and the flow of expression contexts on every layout path.
   check   : hand transcription of check_excess_parentheses (tied to the generated kernel in ParensTie.v)
   R c e o : o is a possible result of formatting e in context c.  The single-line formatter and the hanging
             formatter differ only in the context they give the left operand of a binary operator; R allows
             either at every node, so a statement about every o with R c e o is a statement about every layout. *)
From Coq Require Import List Arith Bool Lia.
Import ListNotations.
From SV Require Import Expr.

Inductive ctx := Std | Prefix | TypeAssertion | BL | BLE | UB.
Fixpoint check (e : expr) (c : ctx) : bool :=
  match e with
  | Paren _ => true
  | Un u x => match c with
              | BLE => false
              | BL => match u with Not => false | _ => check x c end
              | _ => check x c
              end
  | Bin _ _ _ => false
  | Assert _ => match c with UB | BL | BLE => false | _ => true end
  | Multi => false
  | IfE _ => false
  | Atom => true
  end.
Definition keeps (c : ctx) : bool := match c with Prefix | TypeAssertion => true | _ => false end.
Definition droppable (c : ctx) (x : expr) : bool := check x c && negb (keeps c).
(* format_expression_internal, BinaryOperator arm *)
Definition lhs_ctx (b : bop) : ctx := match b with Pow => BLE | _ => BL end.
(* hanging_lhs_context *)
Definition hang_lhs_ctx (b : bop) : ctx := match b with Pow => BLE | _ => UB end.
(* the expression begins with a unary minus token (looking through type assertions, which are postfix) *)
Fixpoint starts_neg (e : expr) : bool := match e with Un Neg _ => true | Assert a => starts_neg a | _ => false end.
(* parenthesise_double_minus *)
Definition guard (u : uop) (x : expr) : expr :=
  match u with Neg => if starts_neg x then Paren x else x | _ => x end.

Inductive R : ctx -> expr -> expr -> Prop :=
| R_atom c : R c Atom Atom
| R_multi c : R c Multi Multi
| R_drop c x o : droppable c x = true -> R c x o -> R c (Paren x) o
| R_keep c x o : droppable c x = false -> R Std x o -> R c (Paren x) (Paren o)
| R_un c u x x' : R UB x x' -> R c (Un u x) (Un u (guard u x'))
| R_bin_single c b l r l' r' : R (lhs_ctx b) l l' -> R UB r r' -> R c (Bin b l r) (Bin b l' r')
| R_bin_hang c b l r l' r' : R (hang_lhs_ctx b) l l' -> R UB r r' -> R c (Bin b l r) (Bin b l' r')
| R_assert c x x' : R TypeAssertion x x' -> R c (Assert x) (Assert x')
| R_if c x x' : R Std x x' -> R c (IfE x) (IfE x').

(* the single-line formatter as a function (one member of R) *)
Fixpoint fmt_single (c : ctx) (e : expr) : expr :=
  match e with
  | Atom | Multi => e
  | Paren x => if droppable c x then fmt_single c x else Paren (fmt_single Std x)
  | Un u x => Un u (guard u (fmt_single UB x))
  | Bin b l r => Bin b (fmt_single (lhs_ctx b) l) (fmt_single UB r)
  | Assert x => Assert (fmt_single TypeAssertion x)
  | IfE x => IfE (fmt_single Std x)
  end.
(* ... and the all-hanging one *)
Fixpoint fmt_hang (c : ctx) (e : expr) : expr :=
  match e with
  | Atom | Multi => e
  | Paren x => if droppable c x then fmt_hang c x else Paren (fmt_hang Std x)
  | Un u x => Un u (guard u (fmt_hang UB x))
  | Bin b l r => Bin b (fmt_hang (hang_lhs_ctx b) l) (fmt_hang UB r)
  | Assert x => Assert (fmt_hang TypeAssertion x)
  | IfE x => IfE (fmt_hang Std x)
  end.

(* decision procedure for R, used by the correspondence check on (input tree, output tree) pairs *)
Definition bop_eqb (a b : bop) : bool :=
  match a, b with
  | Or,Or|And,And|Lt,Lt|Gt,Gt|Le,Le|Ge,Ge|Ne,Ne|Eq,Eq|BOr,BOr|BXor,BXor|BAnd,BAnd|Shl,Shl|Shr,Shr|Concat,Concat
  | Add,Add|Sub,Sub|Mul,Mul|Div,Div|IDiv,IDiv|Mod,Mod|Pow,Pow => true
  | _, _ => false end.
Definition uop_eqb (a b : uop) : bool := match a, b with Neg,Neg|Not,Not|Len,Len|BNot,BNot => true | _,_ => false end.
Fixpoint inR (c : ctx) (e o : expr) {struct e} : bool :=
  match e with
  | Atom => match o with Atom => true | _ => false end
  | Multi => match o with Multi => true | _ => false end
  | Paren x => if droppable c x then inR c x o else match o with Paren o' => inR Std x o' | _ => false end
  | Un u x => match o with
              | Un v y => uop_eqb u v &&
                  match u with
                  | Neg => match y with
                           | Paren y' => (starts_neg y' && inR UB x y') || inR UB x y
                           | _ => negb (starts_neg y) && inR UB x y
                           end
                  | _ => inR UB x y
                  end
              | _ => false end
  | Bin b l r => match o with
                 | Bin b' l' r' => bop_eqb b b' && (inR (lhs_ctx b) l l' || inR (hang_lhs_ctx b) l l') && inR UB r r'
                 | _ => false end
  | Assert x => match o with Assert x' => inR TypeAssertion x x' | _ => false end
  | IfE x => match o with IfE x' => inR Std x x' | _ => false end
  end.

(* ---------- the premise of the idempotence theorem (ParensIdem.v, C06) ---------- *)
(* no unary minus is written directly in front of something that starts with a unary minus (`- -x`, `- -x :: T`): the guard
   never fires on the expression as written *)
Fixpoint gf (e : expr) : bool :=
  match e with
  | Un u x => (match u with Neg => negb (starts_neg x) | _ => true end) && gf x
  | Paren x | Assert x | IfE x => gf x
  | Bin _ l r => gf l && gf r
  | Atom | Multi => true
  end.

(* ---------- conditions: every layer of parentheses around them goes (stmt.rs remove_condition_parentheses); theorems in ParensIdem.v ---------- *)
Definition first_value (s : sem) : sem := match s with SMulti => STrunc | s => s end.
Fixpoint strip (e : expr) : expr := match e with Paren x => strip x | _ => e end.
