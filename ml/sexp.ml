(* minimal S-expression reader shared by the drivers (atoms and lists; `_` stands for a blank inside one field) *)
open Util
type t = A of string | Lst of t list
let parse (s : string) : t =
  let s = SS.map (fun c -> if c = '_' then ' ' else c) s in
  let n = SS.length s in
  let pos = ref 0 in
  let rec skip () = if !pos < n && (SS.get s (!pos)) = ' ' then (incr pos; skip ()) in
  let rec item () =
    skip ();
    if !pos >= n then failwith "sexp: eof"
    else if (SS.get s (!pos)) = '(' then begin
      incr pos;
      let rec items acc = skip ();
        if !pos >= n then failwith "sexp: unclosed"
        else if (SS.get s (!pos)) = ')' then (incr pos; L.rev acc)
        else items (item () :: acc) in
      Lst (items [])
    end else begin
      let st = !pos in
      while !pos < n && (SS.get s (!pos)) <> ' ' && (SS.get s (!pos)) <> '(' && (SS.get s (!pos)) <> ')' do incr pos done;
      A (SS.sub s st (!pos - st))
    end in
  item ()
