//! Shared helpers: hex coding, configuration decoding, the one PRNG, guarded calls of the formatter.
use full_moon::tokenizer::{Lexer, LexerResult, StringLiteralQuoteType, Token, TokenType};
use stylua_lib::*;

pub fn hex(s: &[u8]) -> String {
    if s.is_empty() {
        return "#".into();
    }
    let mut o = String::with_capacity(1 + 2 * s.len());
    o.push('#');
    for b in s {
        o.push_str(&format!("{:02x}", b));
    }
    o
}
pub fn unhex(s: &str) -> Vec<u8> {
    let s = s.strip_prefix('#').unwrap_or(s);
    (0..s.len() / 2)
        .map(|k| u8::from_str_radix(&s[2 * k..2 * k + 2], 16).unwrap())
        .collect()
}

/// SplitMix64: every random choice of every generator comes from one of these, seeded from VERIF_SEED.
#[derive(Clone)]
pub struct Rng(pub u64);
impl Rng {
    pub fn next(&mut self) -> u64 {
        self.0 = self.0.wrapping_add(0x9E3779B97F4A7C15);
        let mut z = self.0;
        z = (z ^ (z >> 30)).wrapping_mul(0xBF58476D1CE4E5B9);
        z = (z ^ (z >> 27)).wrapping_mul(0x94D049BB133111EB);
        z ^ (z >> 31)
    }
    pub fn below(&mut self, n: usize) -> usize {
        (self.next() % (n as u64)) as usize
    }
    pub fn chance(&mut self, num: usize, den: usize) -> bool {
        self.below(den) < num
    }
    pub fn pick<'a, T>(&mut self, v: &'a [T]) -> &'a T {
        &v[self.below(v.len())]
    }
}

pub const SYNTAXES: [&str; 6] = ["Lua51", "Lua52", "Lua53", "Lua54", "LuaJIT", "Luau"];
pub fn syntax(s: &str) -> LuaVersion {
    match s {
        "Lua51" => LuaVersion::Lua51,
        "Lua52" => LuaVersion::Lua52,
        "Lua53" => LuaVersion::Lua53,
        "Lua54" => LuaVersion::Lua54,
        "LuaJIT" => LuaVersion::LuaJIT,
        "Luau" => LuaVersion::Luau,
        "All" => LuaVersion::All,
        _ => panic!("unknown syntax {}", s),
    }
}
pub const QUOTE_STYLES: [&str; 4] = ["AutoPreferDouble", "AutoPreferSingle", "ForceDouble", "ForceSingle"];
pub const CALL_PARENS: [&str; 5] = ["Always", "NoSingleString", "NoSingleTable", "None", "Input"];
pub const SPACE_AFTER: [&str; 4] = ["Never", "Definitions", "Calls", "Always"];
pub const COLLAPSE: [&str; 4] = ["Never", "FunctionOnly", "ConditionalOnly", "Always"];

/// Decodes `k=v` words into a Config (unknown keys are an error: the case stream is ours).
pub fn config(words: &[&str]) -> Config {
    let mut c = Config::default();
    for w in words {
        if w.is_empty() {
            continue;
        }
        let (k, v) = w.split_once('=').unwrap_or_else(|| panic!("bad config word {}", w));
        match k {
            "syntax" => c.syntax = syntax(v),
            "column_width" => c.column_width = if v == "max" { usize::MAX } else { v.parse().unwrap() },
            "line_endings" => c.line_endings = if v == "Windows" { LineEndings::Windows } else { LineEndings::Unix },
            "indent_type" => c.indent_type = if v == "Spaces" { IndentType::Spaces } else { IndentType::Tabs },
            "indent_width" => c.indent_width = v.parse().unwrap(),
            "quote_style" => {
                c.quote_style = match v {
                    "AutoPreferDouble" => QuoteStyle::AutoPreferDouble,
                    "AutoPreferSingle" => QuoteStyle::AutoPreferSingle,
                    "ForceDouble" => QuoteStyle::ForceDouble,
                    "ForceSingle" => QuoteStyle::ForceSingle,
                    _ => panic!("quote_style {}", v),
                }
            }
            "call_parentheses" => {
                c.call_parentheses = match v {
                    "Always" => CallParenType::Always,
                    "NoSingleString" => CallParenType::NoSingleString,
                    "NoSingleTable" => CallParenType::NoSingleTable,
                    "None" => CallParenType::None,
                    "Input" => CallParenType::Input,
                    _ => panic!("call_parentheses {}", v),
                }
            }
            "collapse_simple_statement" => {
                c.collapse_simple_statement = match v {
                    "Never" => CollapseSimpleStatement::Never,
                    "FunctionOnly" => CollapseSimpleStatement::FunctionOnly,
                    "ConditionalOnly" => CollapseSimpleStatement::ConditionalOnly,
                    "Always" => CollapseSimpleStatement::Always,
                    _ => panic!("collapse {}", v),
                }
            }
            "sort_requires" => c.sort_requires = SortRequiresConfig { enabled: v == "true" },
            "space_after_function_names" => {
                c.space_after_function_names = match v {
                    "Never" => SpaceAfterFunctionNames::Never,
                    "Definitions" => SpaceAfterFunctionNames::Definitions,
                    "Calls" => SpaceAfterFunctionNames::Calls,
                    "Always" => SpaceAfterFunctionNames::Always,
                    _ => panic!("space_after {}", v),
                }
            }
            _ => panic!("unknown config key {}", k),
        }
    }
    c
}

pub enum Outcome {
    Ok(String),
    ParseError,
    OtherError(String),
    Panic(String),
}
thread_local! { static PANIC_AT: std::cell::RefCell<String> = std::cell::RefCell::new(String::new()); }
/// format_code behind catch_unwind; the panic message and the place it was raised (crate-relative file:line, written by the
/// hook of silence_panics) are kept for the replay file: "<message> @<place>".
pub fn format_guarded(src: &str, cfg: Config, range: Option<Range>) -> Outcome { format_guarded_v(src, cfg, range, false) }
/// the same with the library's own output verification switched on (`--verify`): its code must not panic either
pub fn format_guarded_v(src: &str, cfg: Config, range: Option<Range>, verify: bool) -> Outcome {
    PANIC_AT.with(|p| p.borrow_mut().clear());
    let r = std::panic::catch_unwind(|| format_code(src, cfg, range, if verify { OutputVerification::Full } else { OutputVerification::None }));
    match r {
        Ok(Ok(s)) => Outcome::Ok(s),
        Ok(Err(Error::ParseError(_))) => Outcome::ParseError,
        Ok(Err(e)) => Outcome::OtherError(format!("{}", e)),
        Err(p) => Outcome::Panic({
            let m = p.downcast_ref::<String>()
                .cloned()
                .or_else(|| p.downcast_ref::<&str>().map(|s| s.to_string()))
                .unwrap_or_else(|| "panic".into());
            let at = PANIC_AT.with(|p| p.borrow().clone());
            if at.is_empty() { m } else { format!("{} @{}", m, at) }
        }),
    }
}
pub fn parses(src: &str, v: LuaVersion) -> bool {
    full_moon::parse_fallible(src, v.into()).into_result().is_ok()
}
pub fn lex(src: &str, v: LuaVersion) -> Option<Vec<Token>> {
    match Lexer::new(src, v.into()).collect() {
        LexerResult::Ok(t) => Some(t),
        _ => None,
    }
}
pub fn quote_letter(q: &StringLiteralQuoteType) -> &'static str {
    match q {
        StringLiteralQuoteType::Single => "s",
        StringLiteralQuoteType::Double => "d",
        StringLiteralQuoteType::Brackets => "b",
        _ => "?",
    }
}
/// One line per token, the format shared with the extracted Coq lexer's dump.
pub fn token_line(t: &Token) -> Option<String> {
    Some(match t.token_type() {
        TokenType::Eof => return None,
        TokenType::Identifier { identifier } => format!("Ident {}", hex(identifier.as_bytes())),
        TokenType::Symbol { symbol } => format!("Sym {}", hex(symbol.to_string().as_bytes())),
        TokenType::Number { text } => format!("Num {}", hex(text.as_bytes())),
        TokenType::StringLiteral { literal, multi_line_depth, quote_type } => {
            format!("Str {} {} {}", quote_letter(quote_type), multi_line_depth, hex(literal.as_bytes()))
        }
        TokenType::Whitespace { characters } => format!("Ws {}", hex(characters.as_bytes())),
        TokenType::SingleLineComment { comment } => format!("LCom {}", hex(comment.as_bytes())),
        TokenType::MultiLineComment { blocks, comment } => format!("BCom {} {}", blocks, hex(comment.as_bytes())),
        TokenType::Shebang { line } => format!("Shebang {}", hex(line.as_bytes())),
        TokenType::InterpolatedString { literal, kind } => format!("Interp {:?} {}", kind, hex(literal.as_bytes())),
        _ => "Other".to_string(),
    })
}
pub fn silence_panics() {
    // panics of the formatter are caught and reported as records; SVH_PANIC=1 shows them (and the harness's own)
    if std::env::var("SVH_PANIC").is_ok() { return; }
    std::panic::set_hook(Box::new(|info| {
        if let Some(l) = info.location() {
            // crate-relative: `full_moon-1.2.0/src/ast/parsers.rs:2640`, `src/formatters/table.rs:517`
            let f = l.file();
            let f = match f.find("/registry/src/") { Some(i) => f[i + 14..].splitn(2, '/').nth(1).unwrap_or(f), None => f.rsplit_once("/repo/").map_or(f, |x| x.1) };
            PANIC_AT.with(|p| *p.borrow_mut() = format!("{}:{}", f, l.line()));
        }
    }));
}
