From Coq Require Import List Bool Arith Lia Permutation.
Import ListNotations.
From SV Require Import CliModel.

Section P.
Variables path content : Type.
Variable path_eqb : path -> path -> bool.
Notation run := (run path content path_eqb).
Notation level := (level content).

(* C13: check mode never writes *)
Theorem check_never_writes files f : fst (run true files f) = f.
Proof. unfold CliModel.run. cbn [fst]. revert f. induction files as [|[p o] r IH]; intros f; cbn; auto. destruct o; apply IH. Qed.

Lemma max_list_le k l : fold_right Nat.max 0 l <= k <-> Forall (fun x => x <= k) l.
Proof. induction l as [|x r IH]; cbn; split; intros H; auto; try lia.
  - constructor; [lia|apply IH; lia].
  - inversion H; subst. apply IH in H3. lia. Qed.
Lemma level_le check (o : outcome content) : level check o <= 2.
Proof. destruct o, check; cbn; lia. Qed.
Lemma status_le check files f : snd (run check files f) <= 2.
Proof. unfold CliModel.run; cbn [snd]. apply max_list_le. apply Forall_map. apply Forall_forall. intros [q o] _. apply level_le. Qed.

(* C13: the status tells the truth *)
Theorem check_status_0 files f : snd (run true files f) = 0 <-> Forall (fun po => snd po = Formatted) files.
Proof.
  unfold CliModel.run; cbn [snd]. split.
  - intros H. assert (L : fold_right Nat.max 0 (map (fun po => level true (snd po)) files) <= 0) by lia.
    apply max_list_le in L. apply Forall_map in L. eapply Forall_impl; [|exact L]. intros [p o] Ho. cbn in *. destruct o; cbn in Ho; auto; lia.
  - intros H. assert (L : Forall (fun x => x <= 0) (map (fun po => level true (snd po)) files)).
    { apply Forall_map. eapply Forall_impl; [|exact H]. intros [p o] Ho. cbn in *. subst. cbn. lia. }
    apply max_list_le in L. lia.
Qed.
Theorem status_2_iff_failure check files f : snd (run check files f) = 2 <-> Exists (fun po => snd po = Failed) files.
Proof.
  unfold CliModel.run; cbn [snd]. induction files as [|[p o] r IH]; cbn [map fold_right snd].
  - split; [discriminate|intros H; inversion H].
  - assert (B : fold_right Nat.max 0 (map (fun po => level check (snd po)) r) <= 2).
    { apply max_list_le. apply Forall_map. apply Forall_forall. intros [q o'] _. apply level_le. }
    assert (L : level check o = 2 <-> o = Failed).
    { destruct o, check; cbn; split; intros; try discriminate; try lia; reflexivity. }
    pose proof (level_le check o) as L2.
    split.
    + intros H. destruct (Nat.eq_dec (level check o) 2) as [E|E].
      * left. cbn [snd]. apply L. exact E.
      * right. apply IH. lia.
    + intros H. inversion H as [? ? E|? ? E]; subst.
      * cbn [snd] in E. apply L in E. lia.
      * apply IH in E. lia.
Qed.
(* status 1 exactly when something differs and nothing failed *)
Theorem check_status_1 files f : snd (run true files f) = 1 <->
  (Exists (fun po => exists c, snd po = Unformatted c) files /\ ~ Exists (fun po => snd po = Failed) files).
Proof.
  pose proof (status_2_iff_failure true files f) as S2. pose proof (check_status_0 files f) as S0.
  pose proof (status_le true files f) as LE. split.
  - intros H. split.
    + destruct (Exists_dec (fun po : path * outcome content => exists c, snd po = Unformatted c) files) as [E|N]; auto.
      { intros [p o]. destruct o; [right; intros [c X]; discriminate|left; eexists; reflexivity|right; intros [c X]; discriminate]. }
      exfalso. assert (F : Forall (fun po => snd po = Formatted) files).
      { apply Forall_forall. intros [p o] Hin. cbn. destruct o; auto.
        - exfalso. apply N. apply Exists_exists. exists (p, Unformatted new). split; auto. eexists; reflexivity.
        - exfalso. assert (X : Exists (fun po : path * outcome content => snd po = Failed) files) by (apply Exists_exists; exists (p, Failed); auto).
          apply S2 in X. lia. }
      apply S0 in F. lia.
    + intros X. apply S2 in X. lia.
  - intros [E N]. destruct (Nat.eq_dec (snd (run true files f)) 2) as [E2|E2]; [apply S2 in E2; contradiction|].
    destruct (Nat.eq_dec (snd (run true files f)) 0) as [E0|E0]; [|lia].
    apply S0 in E0. apply Exists_exists in E. destruct E as ([p o] & Hin & c & Hc). rewrite Forall_forall in E0.
    specialize (E0 _ Hin). cbn in *. congruence.
Qed.
(* a diff is printed for precisely the files that differ *)
Theorem diff_iff_differs (o : outcome content) : diff_printed content true o = true <-> exists c, o = Unformatted c.
Proof. destruct o; cbn; split; intros H; try discriminate; eauto; destruct H; discriminate. Qed.

(* C19: the status does not depend on the order in which results arrive *)
Theorem status_order_independent check l1 l2 f1 f2 : Permutation l1 l2 -> snd (run check l1 f1) = snd (run check l2 f2).
Proof. unfold CliModel.run; cbn [snd]. intros P. induction P; cbn [map fold_right]; lia. Qed.

Hypothesis path_eqb_spec : forall a b, path_eqb a b = true <-> a = b.
(* C14: a failing (or already formatted) file keeps its bytes, whatever else is processed *)
Theorem failing_untouched check files f p :
  (forall o, In (p, o) files -> o = Failed \/ o = Formatted) ->
  fst (run check files f) p = f p.
Proof.
  unfold CliModel.run; cbn [fst]. revert f. induction files as [|[q o] r IH]; intros f H; cbn [fold_left]; auto.
  rewrite IH by (intros o' Ho; apply H; right; exact Ho).
  destruct o as [|c|]; cbn [write]; auto. destruct check; auto. unfold upd.
  destruct (path_eqb p q) eqn:E; auto. apply path_eqb_spec in E. subst q.
  destruct (H (Unformatted c) (or_introl eq_refl)); discriminate.
Qed.
(* C14: every other selected file is still formatted: with distinct paths (C16) an unformatted file ends up with its
   complete formatted text, wherever it stands in the list and whatever fails around it *)
Theorem others_processed files f p c :
  NoDup (map fst files) -> In (p, Unformatted c) files -> fst (run false files f) p = Some c.
Proof.
  unfold CliModel.run; cbn [fst]. revert f. induction files as [|[q o] r IH]; intros f ND Hin; [contradiction|].
  cbn [map fst] in ND. inversion ND as [|? ? Hnot ND']; subst. cbn [fold_left]. destruct Hin as [E|Hin].
  - inversion E; subst. cbn [write].
    (* written now, and never again since p does not occur in r *)
    assert (K : forall g, g p = Some c -> fold_left (write path content path_eqb false) r g p = Some c).
    { clear IH ND ND' E. induction r as [|[q' o'] r' IHr]; intros g Hg; cbn [fold_left]; auto.
      apply IHr; [intros X; apply Hnot; right; exact X|].
      destruct o' as [|c'|]; cbn [write]; auto. unfold upd. destruct (path_eqb p q') eqn:E'; auto.
      apply path_eqb_spec in E'. subst q'. exfalso. apply Hnot. left. reflexivity. }
    apply K. unfold upd. assert (T : path_eqb p p = true) by (apply path_eqb_spec; reflexivity). rewrite T. reflexivity.
  - apply IH; auto.
Qed.
(* a written file holds either its old bytes or its complete formatted text, never anything else *)
Theorem write_only_complete check files f p :
  fst (run check files f) p = f p \/ exists c, In (p, Unformatted c) files /\ fst (run check files f) p = Some c.
Proof.
  unfold CliModel.run; cbn [fst]. revert f. induction files as [|[q o] r IH]; intros f; cbn [fold_left]; auto.
  destruct (IH (write path content path_eqb check f (q, o))) as [E|(c & Hin & E)].
  - rewrite E. destruct o as [|c|]; cbn [write]; auto. destruct check; auto. unfold upd.
    destruct (path_eqb p q) eqn:Q; auto. apply path_eqb_spec in Q. subst q. right. exists c. split; [left; reflexivity|].
    reflexivity.
  - right. exists c. split; [right; exact Hin|exact E].
Qed.
End P.

Section Commute.
Variables path content : Type.
Variable path_eqb : path -> path -> bool.
Hypothesis path_eqb_spec : forall a b, path_eqb a b = true <-> a = b.
Notation write := (write path content path_eqb).

Lemma fold_write_ext check l : forall f g p, f p = g p -> fold_left (write check) l f p = fold_left (write check) l g p.
Proof.
  induction l as [|[q o] r IH]; intros f g p H; cbn [fold_left]; auto. apply IH.
  destruct o as [|c|]; cbn [CliModel.write]; auto. destruct check; auto. unfold upd. rewrite H. reflexivity.
Qed.
(* C19: workers on distinct files commute - the final contents do not depend on the order in which they finish *)
Theorem writes_commute check l1 l2 : Permutation l1 l2 -> NoDup (map fst l1) ->
  forall f p, fold_left (write check) l1 f p = fold_left (write check) l2 f p.
Proof.
  induction 1 as [|x l l' P IH|x y l|l l' l'' P1 IH1 P2 IH2]; intros ND f p; auto.
  - cbn [fold_left]. cbn [map] in ND. inversion ND; subst. apply IH; auto.
  - cbn [fold_left]. apply fold_write_ext. destruct x as [a ox], y as [b oy]. cbn [map fst] in ND.
    inversion ND as [|? ? Hnot _]; subst. assert (Hab : b <> a) by (intros E; apply Hnot; left; symmetry; exact E).
    destruct ox as [|cx|], oy as [|cy|]; cbn [CliModel.write]; auto. destruct check; auto. unfold upd.
    destruct (path_eqb p a) eqn:Ea, (path_eqb p b) eqn:Eb; auto.
    apply path_eqb_spec in Ea, Eb. subst. contradiction.
  - rewrite IH1 by auto. apply IH2. eapply Permutation_NoDup; [|exact ND]. apply Permutation_map. exact P1.
Qed.
End Commute.
